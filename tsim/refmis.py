"""RefMIS: independent reference for the balance-heuristic mixture importance weights.

Written from the formula in the property statement, in extended precision with explicit
max-shifted log-sum-exp, sharing no code with tempest:

    logw_s = beta*logL_s - log( sum_t (n_t/N) exp(beta_t*logL_s - logZ_t) )
    logZ(beta) = log( mean_s exp(logw_s) )
"""
import numpy as np

LD = np.longdouble


def _lse(a, axis=None):
    a = np.asarray(a, dtype=LD)
    m = np.max(a, axis=axis, keepdims=True)
    m = np.where(np.isfinite(m), m, LD(0))
    s = np.log(np.sum(np.exp(a - m), axis=axis, keepdims=True)) + m
    return np.squeeze(s, axis=axis) if axis is not None else s.reshape(())


def mis(batches, beta):
    """batches: list of (beta_t, logz_t, logl_t array).  Returns (logw_unnormalised, logz, logw_normalised)."""
    if not batches:
        return np.array([], dtype=LD), -np.inf, np.array([], dtype=LD)
    bt = np.array([b[0] for b in batches], dtype=LD)
    zt = np.array([b[1] for b in batches], dtype=LD)
    nt = np.array([len(b[2]) for b in batches], dtype=LD)
    ll = np.concatenate([np.asarray(b[2], dtype=LD).ravel() for b in batches])
    N = nt.sum()
    comp = ll[:, None] * bt[None, :] - zt[None, :] + (np.log(nt) - np.log(N))[None, :]
    B = _lse(comp, axis=1)
    logw = LD(beta) * ll - B
    tot = _lse(logw)
    logz = tot - np.log(LD(len(ll)))
    return logw, logz, logw - tot


def ess_from_logw(logw):
    lw = np.asarray(logw, dtype=LD)
    lw = lw - np.max(lw)
    w = np.exp(lw)
    return float(w.sum() ** 2 / np.sum(w * w))


def batches_of(state):
    """Extract [(beta_t, logz_t, logl_t)] from a StateManager by reading its stored history."""
    h = state._history
    return [(float(h["beta"][t]), float(h["logz"][t]), np.asarray(h["logl"][t], dtype=float)) for t in range(len(h["beta"]))]
