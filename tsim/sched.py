"""One integer decides everything: named, independent PRNG streams derived from VERIF_SEED."""
import hashlib
import random


def _h(seed, name):
    return int.from_bytes(hashlib.sha256(f"{int(seed)}:{name}".encode()).digest()[:8], "big")


class Sched:
    def __init__(self, seed):
        self.seed = int(seed)
        self._streams = {}

    def stream(self, name) -> random.Random:
        """A python Random dedicated to `name`; drawing from one never shifts another."""
        if name not in self._streams:
            self._streams[name] = random.Random(_h(self.seed, name))
        return self._streams[name]

    def np_seed(self, name) -> int:
        """32-bit seed for a numpy RandomState dedicated to `name`."""
        return _h(self.seed, "np:" + name) % (2**32)

    def child(self, name) -> "Sched":
        return Sched(_h(self.seed, "child:" + str(name)) % (2**62))
