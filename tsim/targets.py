"""Callback seam (S4): simulator-owned models.  The simulator *is* the user.

A target is a product over coordinates of 1-D factors (optionally a two-component mixture of
such products, optionally one correlated Gaussian), on a box prior, with an optional
zero-likelihood region (support cut) of known prior mass.  Everything is deterministic and the
scalar, vectorised and pooled likelihoods are pointwise bit-identical by construction
(vectorised := [L(row) for row in X]).  Analytic truth (log Z, means, variances, marginal CDFs,
mode masses) and exact inverse-CDF sampling of the tempered law are available for product forms.
"""
import math

import numpy as np
from scipy import special, stats

_REGISTRY = {}


def _lookup(uid):
    return _REGISTRY[uid]


# ----------------------------------------------------------------------------- 1-D factors
class Factor:
    """log f(x) on [a,b]; analytic integral, mean, second moment and CDF of f^beta on [a,b]."""

    def logf(self, x):
        raise NotImplementedError

    def integral(self, a, b, beta=1.0):
        raise NotImplementedError

    def grid_cdf(self, a, b, beta, n=200001):
        xs = np.linspace(a, b, n)
        lf = self.logf_vec(xs)
        w = np.exp(beta * (lf - lf.max()))
        c = np.concatenate([[0.0], np.cumsum(0.5 * (w[1:] + w[:-1]) * np.diff(xs))])
        return xs, c / c[-1]

    def logf_vec(self, xs):
        return np.array([self.logf(float(v)) for v in xs])

    def cdf(self, x, a, b, beta=1.0):
        return self.integral(a, min(max(x, a), b), beta) / self.integral(a, b, beta)

    def moments(self, a, b, beta=1.0):
        xs, c = self.grid_cdf(a, b, beta)
        pdf = np.gradient(c, xs)
        m1 = np.trapezoid(xs * pdf, xs)
        m2 = np.trapezoid(xs * xs * pdf, xs)
        return m1, m2 - m1 * m1

    def ppf(self, q, a, b, beta=1.0):
        xs, c = self.grid_cdf(a, b, beta)
        return np.interp(q, c, xs)


class Gauss(Factor):
    def __init__(self, mu, sig, normed=True):
        self.mu, self.sig = float(mu), float(sig)
        self.c0 = -0.5 * math.log(2.0 * math.pi * self.sig * self.sig) if normed else 0.0

    def logf(self, x):
        z = (x - self.mu) / self.sig
        return -0.5 * z * z + self.c0

    def logf_vec(self, xs):
        z = (xs - self.mu) / self.sig
        return -0.5 * z * z + self.c0

    def integral(self, a, b, beta=1.0):
        s = self.sig / math.sqrt(beta)
        # int exp(beta*logf) = exp(beta*c0) * sqrt(2 pi) s * [Phi((b-mu)/s) - Phi((a-mu)/s)]
        return math.exp(beta * self.c0) * math.sqrt(2 * math.pi) * s * (
            special.ndtr((b - self.mu) / s) - special.ndtr((a - self.mu) / s))

    def moments(self, a, b, beta=1.0):
        s = self.sig / math.sqrt(beta)
        al, be = (a - self.mu) / s, (b - self.mu) / s
        m, v = stats.truncnorm.stats(al, be, loc=self.mu, scale=s, moments="mv")
        return float(m), float(v)

    def ppf(self, q, a, b, beta=1.0):
        s = self.sig / math.sqrt(beta)
        return stats.truncnorm.ppf(q, (a - self.mu) / s, (b - self.mu) / s, loc=self.mu, scale=s)


class Expo(Factor):
    def __init__(self, lam):
        self.lam = float(lam)

    def logf(self, x):
        return -self.lam * x

    def logf_vec(self, xs):
        return -self.lam * xs

    def integral(self, a, b, beta=1.0):
        l = self.lam * beta
        if l == 0:
            return b - a
        return (math.exp(-l * a) - math.exp(-l * b)) / l

    def ppf(self, q, a, b, beta=1.0):
        l = self.lam * beta
        ea, eb = math.exp(-l * a), math.exp(-l * b)
        return -np.log(ea - q * (ea - eb)) / l


class VonMises(Factor):
    """log f = kappa*cos(2 pi (x - m)/P) on a coordinate of period P."""

    def __init__(self, kappa, m, period=1.0):
        self.kappa, self.m, self.P = float(kappa), float(m), float(period)

    def logf(self, x):
        return self.kappa * math.cos(2.0 * math.pi * (x - self.m) / self.P)

    def logf_vec(self, xs):
        return self.kappa * np.cos(2.0 * np.pi * (xs - self.m) / self.P)

    def integral(self, a, b, beta=1.0):
        if abs((b - a) - self.P) < 1e-12:
            return self.P * float(special.i0(self.kappa * beta))
        xs = np.linspace(a, b, 200001)
        return float(np.trapezoid(np.exp(beta * self.logf_vec(xs)), xs))

    def cdf(self, x, a, b, beta=1.0):
        xs, c = self.grid_cdf(a, b, beta)
        return float(np.interp(x, xs, c))


class Flat(Factor):
    def logf(self, x):
        return 0.0

    def logf_vec(self, xs):
        return np.zeros_like(xs)

    def integral(self, a, b, beta=1.0):
        return b - a

    def moments(self, a, b, beta=1.0):
        return 0.5 * (a + b), (b - a) ** 2 / 12.0

    def ppf(self, q, a, b, beta=1.0):
        return a + q * (b - a)


def make_factor(spec):
    k = spec[0]
    if k == "gauss":
        return Gauss(spec[1], spec[2])
    if k == "ugauss":
        return Gauss(spec[1], spec[2], normed=False)
    if k == "expo":
        return Expo(spec[1])
    if k == "vonmises":
        return VonMises(spec[1], spec[2], spec[3] if len(spec) > 3 else 1.0)
    if k == "flat":
        return Flat()
    raise ValueError(spec)


# ----------------------------------------------------------------------------- targets
class Target:
    """spec (JSON-able):
      d, lo[], hi[]                     box prior (prior_transform: x = lo + (hi-lo)*u)
      comps: [{"w": w, "factors": [[kind, ...] per coordinate]}]    1 or 2 components
      corr: {"mu":[..], "cov":[[..]]}   instead of comps: one correlated Gaussian (interior)
      cut[]: optional upper support limit per coordinate (logL=-inf beyond) -> prior mass f
      shift: constant added to logL;   blobs: number of blob values (0,1,2)
    """

    _next_uid = 0

    def __init__(self, spec):
        self.spec = spec
        self.d = int(spec["d"])
        self.lo = np.array(spec.get("lo", [0.0] * self.d), dtype=float)
        self.hi = np.array(spec.get("hi", [1.0] * self.d), dtype=float)
        self.w = self.hi - self.lo
        self.shift = float(spec.get("shift", 0.0))
        self.nblobs = int(spec.get("blobs", 0))
        self.cut = None if spec.get("cut") is None else [float(c) for c in spec["cut"]]
        self.dead_first = int(spec.get("dead_first", 0))
        # rounding-noise twin: every finite log-likelihood value is perturbed by amp*h(x), h in [-1,1] a fixed hash of the point - what the rounding of
        # (L + c) does to L when |c| >> |L| (amp = ulp(c)/2), without any shift
        self.noise = spec.get("noise")
        self.vec_out = spec.get("vec_out")
        self._bufs = {}
        self.corr = spec.get("corr")
        if self.corr is not None:
            self.cmu = np.array(self.corr["mu"], dtype=float)
            cov = np.array(self.corr["cov"], dtype=float)
            self.cprec = np.linalg.inv(cov)
            self.cc0 = -0.5 * (self.d * math.log(2 * math.pi) + math.log(np.linalg.det(cov)))
            self.comps = []
        else:
            self.comps = [(float(c.get("w", 1.0)), [make_factor(f) for f in c["factors"]]) for c in spec["comps"]]
        self.n_points = 0
        self.n_neginf = 0  # how many of the evaluated points had zero likelihood, counted by the user's model itself (not by what the library makes of the value)
        self.n_tf = 0
        Target._next_uid += 1
        self.uid = Target._next_uid
        _REGISTRY[self.uid] = self

    def __reduce__(self):
        return (_lookup, (self.uid,))

    # -- callbacks handed to tempest ------------------------------------------------
    def prior_transform(self, u):
        self.n_tf += 1
        return self.lo + self.w * u

    def T(self, u):
        """Same arithmetic as prior_transform, without counting (used by oracles)."""
        return self.lo + self.w * np.asarray(u)

    dead_first = 0  # stateful user model: the first `dead_first` evaluated points get -inf (e.g. a simulator that warms up)

    def _maybe_dead(self, v, k):
        return -math.inf if k < self.dead_first else v

    def logl_pure(self, x):
        """Pure scalar log-likelihood (no counting); x is a 1-D float array."""
        if self.cut is not None:
            for i in range(self.d):
                if x[i] > self.cut[i]:
                    return -math.inf
        if self.corr is not None:
            dx = [float(x[i]) - float(self.cmu[i]) for i in range(self.d)]
            q = 0.0
            for i in range(self.d):
                for j in range(self.d):
                    q += dx[i] * float(self.cprec[i, j]) * dx[j]
            v = -0.5 * q + self.cc0
        elif len(self.comps) == 1:
            v = 0.0
            for i, f in enumerate(self.comps[0][1]):
                v += f.logf(float(x[i]))
        else:
            terms = []
            for w, fs in self.comps:
                t = math.log(w)
                for i, f in enumerate(fs):
                    t += f.logf(float(x[i]))
                terms.append(t)
            m = max(terms)
            v = m + math.log(sum(math.exp(t - m) for t in terms)) if m > -math.inf else -math.inf
        if self.noise and v > -math.inf:
            import zlib

            hsh = zlib.crc32(np.asarray(x, dtype=float).tobytes() + int(self.noise.get("seed", 0)).to_bytes(4, "little"))
            v += float(self.noise["amp"]) * (hsh / 2147483648.0 - 1.0)
        return v + self.shift

    def blob_pure(self, x):
        b0 = float(x[0]) * 2.0 + 1.0
        if self.nblobs == 1:
            return (b0,)
        return (b0, float(sum(float(v) for v in x)))

    def loglike(self, x):
        """Scalar callback."""
        self.n_points += 1
        v = self._maybe_dead(self.logl_pure(x), self.n_points - 1)
        self.n_neginf += v == -math.inf
        if self.nblobs:
            return (v,) + self.blob_pure(x)
        return v

    def loglike_args(self, x, scale, offset=0.0):
        """Scalar callback taking extra positional/keyword arguments (log_likelihood_args / _kwargs); with
        scale=1.0, offset=0.0 the value is bit-identical to loglike(x)."""
        self.n_points += 1
        v = self.logl_pure(x) * scale + offset
        self.n_neginf += v == -math.inf
        if self.nblobs:
            return (v,) + self.blob_pure(x)
        return v

    def loglike_vec_args(self, X, scale, offset=0.0):
        X = np.asarray(X)
        self.n_points += len(X)
        out = np.array([self.logl_pure(row) * scale + offset for row in X])
        self.n_neginf += int(np.sum(np.isneginf(out)))
        return out

    def loglike_np(self, x):
        """Scalar callback returning a numpy scalar / 1-element array instead of a Python float (same value)."""
        self.n_points += 1
        v = self.logl_pure(x)
        self.n_neginf += v == -math.inf
        return np.float64(v) if self.ret == "npfloat" else np.asarray(v) if self.ret == "arr0" else np.array([v])

    ret = "pyfloat"

    def loglike_vec(self, X):
        X = np.asarray(X)
        k0 = self.n_points
        self.n_points += len(X)
        out = np.array([self._maybe_dead(self.logl_pure(row), k0 + i) for i, row in enumerate(X)])
        self.n_neginf += int(np.sum(np.isneginf(out)))
        if self.vec_out:
            # a user model that writes into a preallocated output array (compiled / GPU code with out=...) and returns that same array on every call -
            # correct values at the time of return, overwritten by the next call; "readonly": a read-only view of such a workspace
            buf = self._bufs.get(len(out))
            if buf is None:
                buf = self._bufs[len(out)] = np.empty(len(out))
            buf[:] = out
            if self.vec_out == "readonly":
                v = buf.view()
                v.setflags(write=False)
                return v
            return buf
        return out

    # -- oracles ----------------------------------------------------------------------
    def support_hi(self):
        return self.hi if self.cut is None else np.minimum(self.hi, np.array(self.cut))

    def prior_mass(self):
        return float(np.prod((self.support_hi() - self.lo) / self.w))

    def truth(self, beta=1.0):
        """Analytic log Z (w.r.t. the uniform box prior), per-coordinate means/variances and
        CDF oracle; only for product-form (and interior correlated Gaussian) targets."""
        sh = self.support_hi()
        vol = float(np.prod(self.w))
        if self.corr is not None:
            cov = np.array(self.corr["cov"], dtype=float)
            return dict(logz=-math.log(vol) + self.shift, mean=list(self.cmu), var=list(np.diag(cov)),
                        cdf=lambda i, x: float(special.ndtr((x - self.cmu[i]) / math.sqrt(cov[i, i]))))
        zs, ms, vs = [], [], []
        for w, fs in self.comps:
            zi = [f.integral(self.lo[i], sh[i], beta) for i, f in enumerate(fs)]
            mv = [f.moments(self.lo[i], sh[i], beta) for i, f in enumerate(fs)]
            zs.append((w ** beta if len(self.comps) == 1 else w) * float(np.prod(zi)))
            ms.append([m for m, _ in mv])
            vs.append([v for _, v in mv])
        if len(self.comps) > 1 and beta != 1.0:
            raise ValueError("tempered truth for mixtures not available")
        Z = sum(zs)
        pk = [z / Z for z in zs]
        mean = [sum(pk[k] * ms[k][i] for k in range(len(pk))) for i in range(self.d)]
        var = [sum(pk[k] * (vs[k][i] + ms[k][i] ** 2) for k in range(len(pk))) - mean[i] ** 2 for i in range(self.d)]

        def cdf(i, x):
            return sum(pk[k] * self.comps[k][1][i].cdf(x, self.lo[i], sh[i], beta) for k in range(len(pk)))

        return dict(logz=math.log(Z) - math.log(vol) + beta * self.shift, mean=mean, var=var, cdf=cdf, masses=pk)

    def sample_tempered_u(self, rng, n, beta):
        """Exact iid draws (in unit-cube coordinates) from pi_beta, product-form single component."""
        assert len(self.comps) == 1 and self.corr is None
        sh = self.support_hi()
        q = rng.random_sample((n, self.d))
        x = np.empty((n, self.d))
        for i, f in enumerate(self.comps[0][1]):
            x[:, i] = f.ppf(q[:, i], self.lo[i], sh[i], beta)
        u = (x - self.lo) / self.w
        return np.clip(u, 0.0, 1.0)


# ----------------------------------------------------------------------------- canonical specs
def spec_gauss(d=2, mu=0.3, sig=0.1, lo=-1.0, hi=1.0, **kw):
    s = dict(d=d, lo=[lo] * d, hi=[hi] * d, comps=[dict(w=1.0, factors=[["gauss", mu + 0.1 * i, sig * (1 + 0.5 * i)] for i in range(d)])])
    s.update(kw)
    return s


def spec_corr(rho=0.7, sig=0.05, **kw):
    s = dict(d=2, lo=[-1.0, -1.0], hi=[1.0, 1.0], corr=dict(mu=[0.1, -0.2], cov=[[sig ** 2, rho * sig * sig * 1.5], [rho * sig * sig * 1.5, (1.5 * sig) ** 2]]))
    s.update(kw)
    return s


def spec_bimodal(d=2, w1=0.3, sep=1.0, sig=0.07, **kw):
    a, b = -sep / 2, sep / 2
    s = dict(d=d, lo=[-1.0] * d, hi=[1.0] * d, comps=[
        dict(w=w1, factors=[["gauss", a, sig]] + [["gauss", 0.0, sig * 1.5]] * (d - 1)),
        dict(w=1 - w1, factors=[["gauss", b, sig * 1.3]] + [["gauss", 0.1, sig * 1.5]] * (d - 1)),
    ])
    s.update(kw)
    return s


def spec_expedge(d=2, lam=6.0, **kw):
    s = dict(d=d, lo=[0.0] * d, hi=[1.0] * d, comps=[dict(w=1.0, factors=[["expo", lam]] + [["gauss", 0.5, 0.12]] * (d - 1))])
    s.update(kw)
    return s


def spec_halfgauss(d=2, sig=0.25, **kw):
    s = dict(d=d, lo=[0.0] * d, hi=[1.0] * d, comps=[dict(w=1.0, factors=[["gauss", 0.0, sig]] + [["gauss", 0.5, 0.12]] * (d - 1))])
    s.update(kw)
    return s


def spec_vonmises(d=2, kappa=3.0, m=0.02, **kw):
    s = dict(d=d, lo=[0.0] * d, hi=[1.0] * d, comps=[dict(w=1.0, factors=[["vonmises", kappa, m]] + [["gauss", 0.5, 0.12]] * (d - 1))])
    s.update(kw)
    return s


def spec_hole(d=2, f=0.5, mu=0.2, sig=0.15, **kw):
    """Gaussian on [0,1]^d with logL=-inf for x0 > f (prior mass f)."""
    s = dict(d=d, lo=[0.0] * d, hi=[1.0] * d, cut=[f] + [1.0] * (d - 1),
             comps=[dict(w=1.0, factors=[["gauss", mu, sig]] + [["gauss", 0.5, 0.2]] * (d - 1))])
    s.update(kw)
    return s
