"""File-system seam (S2): an in-process virtual mount at /simfs.

Layers per file: CPython's own user-space buffer (real io.BufferedWriter, lost on process
death) -> page cache (`Inode.data`, reached by raw write; survives process death) -> disk
(`Inode.data[:synced]`, durable).  Namespace operations are journalled; an fsync is a
barrier that makes the file's data and all earlier namespace operations durable (ext4-like).
A machine crash keeps a seeded prefix of the journal and, per file, a seeded prefix of the
un-fsynced data.  Every interposed call is a numbered syscall event and a possible fault point.
"""
import builtins
import errno
import io
import os
import random
import stat as statmod

MOUNT = "/simfs"
FD_BASE = 1_000_000

_REAL = {}
_FS = None  # the mounted SimFS or None
_INSTALLED = False


class SimCrash(BaseException):
    """The simulated process (or machine) died at this instant."""

    def __init__(self, kind, where):
        super().__init__(f"{kind} at {where}")
        self.kind = kind
        self.where = where


def is_sim(path):
    if isinstance(path, int):
        return path >= FD_BASE
    try:
        p = os.fspath(path)
    except TypeError:
        return False
    if isinstance(p, bytes):
        p = p.decode()
    return p == MOUNT or p.startswith(MOUNT + "/")


def norm(path):
    p = os.fspath(path)
    if isinstance(p, bytes):
        p = p.decode()
    return os.path.normpath(p)


class Inode:
    __slots__ = ("ino", "data", "synced")

    def __init__(self, ino):
        self.ino = ino
        self.data = bytearray()
        self.synced = 0


class OpenFile:
    __slots__ = ("fd", "ino", "path", "pos", "epoch", "readable", "writable", "append", "closed")


class SimRawFile(io.RawIOBase):
    def __init__(self, fs, of, closefd=True):
        super().__init__()
        self._fs = fs
        self._of = of
        self._closefd = closefd
        self.name = of.path
        self.mode = "rb+" if (of.readable and of.writable) else ("rb" if of.readable else "wb")

    def readable(self):
        return self._of.readable

    def writable(self):
        return self._of.writable

    def seekable(self):
        return True

    def fileno(self):
        return self._of.fd

    def isatty(self):
        return False

    def readinto(self, b):
        data = self._fs.sys_read(self._of, len(b))
        n = len(data)
        b[:n] = data
        return n

    def write(self, b):
        return self._fs.sys_write(self._of, bytes(b))

    def seek(self, off, whence=0):
        of = self._of
        size = len(self._fs.inodes[of.ino].data)
        if whence == 0:
            of.pos = off
        elif whence == 1:
            of.pos += off
        else:
            of.pos = size + off
        return of.pos

    def tell(self):
        return self._of.pos

    def truncate(self, size=None):
        if size is None:
            size = self._of.pos
        self._fs.sys_ftruncate(self._of, size)
        return size

    def close(self):
        if not self.closed:
            try:
                if self._closefd:
                    self._fs.sys_close(self._of)
            finally:
                super().close()


class _DirEntry:
    def __init__(self, fs, d, name):
        self.name = name
        self.path = d.rstrip("/") + "/" + name
        self._fs = fs

    def is_dir(self, follow_symlinks=True):
        return self.path in self._fs.dirs

    def is_file(self, follow_symlinks=True):
        return self.path in self._fs.names

    def is_symlink(self):
        return False

    def stat(self, follow_symlinks=True):
        return self._fs.sys_stat(self.path, count=False)

    def inode(self):
        return 0

    def __fspath__(self):
        return self.path


class _ScanDir(list):
    def __enter__(self):
        return self

    def __exit__(self, *a):
        return False

    def close(self):
        pass


class SimFS:
    def __init__(self):
        self.inodes = {}
        self.next_ino = 1
        self.names = {}
        self.dirs = {MOUNT}
        self.dnames = {}
        self.ddirs = {MOUNT}
        self.journal = []
        self.fds = {}
        self.next_fd = FD_BASE
        self.epoch = 0
        self.dead = False
        self.nsys = 0
        self.log = []  # (idx, kind, path, nbytes) for the current incarnation
        self.plan = {}  # {syscall idx: fault dict}
        self.fired = []  # faults that fired (all incarnations)
        self.windows = []  # [label, start_idx, end_idx or None]
        self.counters = {}
        self.live_files = []  # python file objects of the current incarnation (closed explicitly, never left to the GC)

    def close_all(self):
        """Process exit: close every file object the incarnation left open.  After a crash the
        file system is dead, so buffered data is discarded instead of reaching the page cache."""
        files, self.live_files = self.live_files, []
        for f in files:
            try:
                f.close()
            except BaseException as e:
                if type(e).__name__ == "CaseTimeout":  # the harness's per-case alarm must never be swallowed
                    raise

    # ---------------------------------------------------------------- fault gate
    def _gate(self, kind, path, nbytes=0):
        """Number the syscall; returns the fault to apply (or None)."""
        idx = self.nsys
        self.nsys += 1
        self.log.append((idx, kind, path, nbytes))
        self.counters[kind] = self.counters.get(kind, 0) + 1
        return self.plan.get(idx)

    def _die(self, fault, kind, path, idx):
        self.dead = True
        rec = dict(fault)
        rec.update(syscall=kind, path=path, idx=idx, window=self.window_of(idx))
        self.fired.append(rec)
        if fault["kind"] == "crash.machine":
            self._machine_crash(fault)
        raise SimCrash(fault["kind"], f"{kind}#{idx}:{path}")

    def _fault_before(self, kind, path, nbytes=0):
        f = self._gate(kind, path, nbytes)
        if f is None:
            return None
        idx = self.nsys - 1
        if f["kind"].startswith("crash") and (kind != "write" or f.get("byte") is None):
            self._die(f, kind, path, idx)
        if f["kind"] == "io.error" and kind != "write":
            rec = dict(f)
            rec.update(syscall=kind, path=path, idx=idx, window=self.window_of(idx))
            self.fired.append(rec)
            raise OSError(f.get("errno", errno.EIO), os.strerror(f.get("errno", errno.EIO)), path)
        return f

    def window_of(self, idx):
        for label, a, b in self.windows:
            if a <= idx and (b is None or idx < b):
                return label
        return None

    def open_window(self, label):
        self.windows.append([label, self.nsys, None])

    def close_window(self):
        if self.windows and self.windows[-1][2] is None:
            self.windows[-1][2] = self.nsys

    # ---------------------------------------------------------------- crash / reboot
    def _apply(self, names, dirs, op):
        k = op[0]
        if k == "link":
            names[op[1]] = op[2]
        elif k == "unlink":
            names.pop(op[1], None)
        elif k == "rename":
            if op[1] in names:
                names[op[2]] = names.pop(op[1])
            elif op[1] in dirs:
                dirs.discard(op[1])
                dirs.add(op[2])
        elif k == "mkdir":
            dirs.add(op[1])
        elif k == "rmdir":
            dirs.discard(op[1])

    def _machine_crash(self, fault):
        rnd = random.Random(fault.get("cut_seed", 0))
        jfrac = fault.get("journal_frac")
        if jfrac is None:
            jfrac = rnd.choice([0.0, 1.0, rnd.random()])
        j = int(round(jfrac * len(self.journal)))
        names, dirs = dict(self.dnames), set(self.ddirs)
        for op in self.journal[:j]:
            self._apply(names, dirs, op)
        cuts = {}
        for ino in sorted(self.inodes):
            node = self.inodes[ino]
            extra = len(node.data) - node.synced
            if extra > 0:
                mode = rnd.choice(["none", "all", "part"])
                keep = 0 if mode == "none" else extra if mode == "all" else rnd.randrange(extra + 1)
                cuts[ino] = (len(node.data), node.synced + keep)
                del node.data[node.synced + keep:]
        self.names, self.dirs = names, dirs
        self.fired[-1]["journal_kept"] = f"{j}/{len(self.journal)}"
        self.fired[-1]["data_cuts"] = {str(k): v for k, v in cuts.items()}
        self._barrier_all()

    def _barrier_all(self):
        self.dnames, self.ddirs = dict(self.names), set(self.dirs)
        self.journal = []
        for node in self.inodes.values():
            node.synced = len(node.data)

    def reboot(self, plan=None):
        """Start a new incarnation: only what the crash model kept is visible."""
        self.epoch += 1
        self.dead = False
        self.fds = {}
        self.nsys = 0
        self.log = []
        self.plan = plan or {}
        self.windows = []

    # ---------------------------------------------------------------- helpers
    def _parent_ok(self, path):
        parent = os.path.dirname(path)
        if parent not in self.dirs:
            raise FileNotFoundError(errno.ENOENT, os.strerror(errno.ENOENT), path)

    def _new_inode(self):
        node = Inode(self.next_ino)
        self.inodes[node.ino] = node
        self.next_ino += 1
        return node

    def _stale(self, of):
        return self.dead or of.epoch != self.epoch

    # ---------------------------------------------------------------- syscalls
    def sys_open(self, path, readable, writable, create, trunc, excl, append):
        path = norm(path)
        if self.dead:
            raise OSError(errno.EIO, "dead process", path)
        self._fault_before("open", path)
        if path in self.dirs:
            raise IsADirectoryError(errno.EISDIR, os.strerror(errno.EISDIR), path)
        exists = path in self.names
        if exists and excl:
            raise FileExistsError(errno.EEXIST, os.strerror(errno.EEXIST), path)
        if not exists:
            if not create:
                raise FileNotFoundError(errno.ENOENT, os.strerror(errno.ENOENT), path)
            self._parent_ok(path)
        if (not exists) or trunc:
            # creation and truncation are namespace-level (journalled) events: the name now
            # refers to a fresh empty inode; losing the event restores the old inode.
            node = self._new_inode()
            self.names[path] = node.ino
            self.journal.append(("link", path, node.ino))
        of = OpenFile()
        of.fd = self.next_fd
        self.next_fd += 1
        of.ino = self.names[path]
        of.path = path
        of.pos = 0
        of.epoch = self.epoch
        of.readable, of.writable, of.append, of.closed = readable, writable, append, False
        self.fds[of.fd] = of
        return of

    def sys_write(self, of, b):
        if self._stale(of):
            return len(b)  # a dead process's buffers never reach the page cache
        f = self._fault_before("write", of.path, len(b))
        node = self.inodes[of.ino]
        n = len(b)
        if f is not None:
            idx = self.nsys - 1
            k = max(0, min(int(f.get("byte") or 0), n))
            self._do_write(of, node, b[:k])
            if f["kind"].startswith("crash"):
                f = dict(f, byte=k, of=n)
                self._die(f, "write", of.path, idx)
            rec = dict(f)
            rec.update(syscall="write", path=of.path, idx=idx, byte=k, of=n, window=self.window_of(idx))
            self.fired.append(rec)
            raise OSError(f.get("errno", errno.ENOSPC), os.strerror(f.get("errno", errno.ENOSPC)), of.path)
        self._do_write(of, node, b)
        return n

    def _do_write(self, of, node, b):
        if of.append:
            of.pos = len(node.data)
        end = of.pos + len(b)
        if of.pos > len(node.data):
            node.data.extend(b"\0" * (of.pos - len(node.data)))
        node.data[of.pos:end] = b
        if of.pos < node.synced:
            node.synced = of.pos
        of.pos = end

    def sys_read(self, of, n):
        if self._stale(of):
            return b""
        self._fault_before("read", of.path, n)
        node = self.inodes[of.ino]
        data = bytes(node.data[of.pos:of.pos + n])
        of.pos += len(data)
        return data

    def sys_ftruncate(self, of, size):
        if self._stale(of):
            return
        self._fault_before("ftruncate", of.path)
        node = self.inodes[of.ino]
        del node.data[size:]
        node.synced = min(node.synced, size)

    def sys_fsync(self, of):
        if self._stale(of):
            return
        self._fault_before("fsync", of.path)
        node = self.inodes[of.ino]
        node.synced = len(node.data)
        for op in self.journal:
            self._apply(self.dnames, self.ddirs, op)
        self.journal = []

    def sys_close(self, of):
        if of.closed:
            return
        of.closed = True
        if self._stale(of):
            return
        self._fault_before("close", of.path)
        self.fds.pop(of.fd, None)

    def sys_rename(self, src, dst):
        src, dst = norm(src), norm(dst)
        if self.dead:
            return
        self._fault_before("rename", f"{src}->{dst}")
        if src in self.names:
            if dst in self.dirs:
                raise IsADirectoryError(errno.EISDIR, os.strerror(errno.EISDIR), dst)
            self._parent_ok(dst)
            self.names[dst] = self.names.pop(src)
        elif src in self.dirs:
            self._parent_ok(dst)
            self.dirs.discard(src)
            self.dirs.add(dst)
            for p in list(self.names):
                if p.startswith(src + "/"):
                    self.names[dst + p[len(src):]] = self.names.pop(p)
        else:
            raise FileNotFoundError(errno.ENOENT, os.strerror(errno.ENOENT), src)
        self.journal.append(("rename", src, dst))

    def sys_unlink(self, path):
        path = norm(path)
        if self.dead:
            return
        self._fault_before("unlink", path)
        if path not in self.names:
            raise FileNotFoundError(errno.ENOENT, os.strerror(errno.ENOENT), path)
        del self.names[path]
        self.journal.append(("unlink", path))

    def sys_mkdir(self, path):
        path = norm(path)
        if self.dead:
            return
        self._fault_before("mkdir", path)
        if path in self.dirs or path in self.names:
            raise FileExistsError(errno.EEXIST, os.strerror(errno.EEXIST), path)
        self._parent_ok(path)
        self.dirs.add(path)
        self.journal.append(("mkdir", path))

    def sys_rmdir(self, path):
        path = norm(path)
        if self.dead:
            return
        self._fault_before("rmdir", path)
        if path not in self.dirs:
            raise FileNotFoundError(errno.ENOENT, os.strerror(errno.ENOENT), path)
        if self.listdir(path):
            raise OSError(errno.ENOTEMPTY, os.strerror(errno.ENOTEMPTY), path)
        self.dirs.discard(path)
        self.journal.append(("rmdir", path))

    def sys_stat(self, path, count=True):
        path = norm(path)
        if count and not self.dead:
            self._fault_before("stat", path)
        if path in self.dirs:
            return os.stat_result((statmod.S_IFDIR | 0o755, 0, 0, 1, 0, 0, 0, 0, 0, 0))
        if path in self.names:
            node = self.inodes[self.names[path]]
            return os.stat_result((statmod.S_IFREG | 0o644, node.ino, 0, 1, 0, 0, len(node.data), 0, 0, 0))
        raise FileNotFoundError(errno.ENOENT, os.strerror(errno.ENOENT), path)

    def listdir(self, path):
        path = norm(path)
        if path not in self.dirs:
            raise FileNotFoundError(errno.ENOENT, os.strerror(errno.ENOENT), path)
        pre = path.rstrip("/") + "/"
        out = set()
        for p in list(self.names) + list(self.dirs):
            if p.startswith(pre):
                rest = p[len(pre):]
                if rest and "/" not in rest:
                    out.add(rest)
        return sorted(out)

    # ---------------------------------------------------------------- harness-side (not syscalls)
    def read_bytes(self, path):
        return bytes(self.inodes[self.names[norm(path)]].data)

    def files(self, d=None):
        return sorted(p for p in self.names if d is None or p.startswith(norm(d) + "/"))

    def size(self, path):
        return len(self.inodes[self.names[norm(path)]].data)


# -------------------------------------------------------------------- interposition
def _parse_mode(mode):
    m = set(mode)
    binary = "b" in m
    plus = "+" in m
    if "r" in m:
        return dict(readable=True, writable=plus, create=False, trunc=False, excl=False, append=False), binary
    if "w" in m:
        return dict(readable=plus, writable=True, create=True, trunc=True, excl=False, append=False), binary
    if "x" in m:
        return dict(readable=plus, writable=True, create=True, trunc=False, excl=True, append=False), binary
    if "a" in m:
        return dict(readable=plus, writable=True, create=True, trunc=False, excl=False, append=True), binary
    raise ValueError(f"invalid mode: {mode!r}")


def _sim_open(file, mode="r", buffering=-1, encoding=None, errors=None, newline=None, closefd=True, opener=None):
    fs = _FS
    flags, binary = _parse_mode(mode)
    if isinstance(file, int):
        of = fs.fds.get(file)
        if of is None:
            raise OSError(errno.EBADF, os.strerror(errno.EBADF))
        raw = SimRawFile(fs, of, closefd=closefd)
    else:
        of = fs.sys_open(file, **flags)
        raw = SimRawFile(fs, of)
    if buffering == 0:
        if not binary:
            raise ValueError("can't have unbuffered text I/O")
        fs.live_files.append(raw)
        return raw
    bs = io.DEFAULT_BUFFER_SIZE if buffering < 0 or buffering == 1 else buffering
    if of.readable and of.writable:
        buf = io.BufferedRandom(raw, bs)
    elif of.writable:
        buf = io.BufferedWriter(raw, bs)
    else:
        buf = io.BufferedReader(raw, bs)
    if binary:
        fs.live_files.append(buf)
        return buf
    tw = io.TextIOWrapper(buf, encoding or "utf-8", errors, newline, line_buffering=(buffering == 1))
    fs.live_files.append(tw)
    return tw


def _open(file, *a, **k):
    if _FS is not None and is_sim(file):
        return _sim_open(file, *a, **k)
    return _REAL["open"](file, *a, **k)


def _os_open(path, flags, mode=0o777, *, dir_fd=None):
    if _FS is not None and is_sim(path):
        acc = flags & os.O_ACCMODE
        of = _FS.sys_open(
            path,
            readable=acc in (os.O_RDONLY, os.O_RDWR),
            writable=acc in (os.O_WRONLY, os.O_RDWR),
            create=bool(flags & os.O_CREAT),
            trunc=bool(flags & os.O_TRUNC),
            excl=bool(flags & os.O_EXCL),
            append=bool(flags & os.O_APPEND),
        )
        return of.fd
    if dir_fd is not None:
        return _REAL["os.open"](path, flags, mode, dir_fd=dir_fd)
    return _REAL["os.open"](path, flags, mode)


def _fdcall(name, simfn):
    real = _REAL[name]

    def f(fd, *a, **k):
        if _FS is not None and isinstance(fd, int) and fd >= FD_BASE:
            of = _FS.fds.get(fd)
            if of is None:
                if _FS.dead:
                    return None
                raise OSError(errno.EBADF, os.strerror(errno.EBADF))
            return simfn(_FS, of, *a, **k)
        return real(fd, *a, **k)

    f.__name__ = name
    return f


def _pathcall(name, simfn):
    real = _REAL[name]

    def f(path, *a, **k):
        if _FS is not None and is_sim(path):
            return simfn(_FS, path, *a, **k)
        return real(path, *a, **k)

    f.__name__ = name
    return f


def _stat_sim(fs, path, *a, **k):
    if isinstance(path, int):
        of = fs.fds[path]
        return fs.sys_stat(of.path, count=False)
    return fs.sys_stat(path)


def _rename(src, dst, *a, **k):
    if _FS is not None and (is_sim(src) or is_sim(dst)):
        if not (is_sim(src) and is_sim(dst)):
            raise OSError(errno.EXDEV, os.strerror(errno.EXDEV), os.fspath(src))
        return _FS.sys_rename(src, dst)
    return _REAL["os.rename"](src, dst, *a, **k)


def _replace(src, dst, *a, **k):
    if _FS is not None and (is_sim(src) or is_sim(dst)):
        if not (is_sim(src) and is_sim(dst)):
            raise OSError(errno.EXDEV, os.strerror(errno.EXDEV), os.fspath(src))
        return _FS.sys_rename(src, dst)
    return _REAL["os.replace"](src, dst, *a, **k)


def _scandir(path="."):
    if _FS is not None and is_sim(path):
        p = norm(path)
        return _ScanDir(_DirEntry(_FS, p, n) for n in _FS.listdir(p))
    return _REAL["os.scandir"](path)


def install():
    global _INSTALLED
    if _INSTALLED:
        return
    _REAL["open"] = builtins.open
    for n in ("open", "close", "read", "write", "fsync", "fdatasync", "fstat", "stat", "lstat", "mkdir", "rmdir",
              "rename", "replace", "unlink", "remove", "listdir", "scandir", "ftruncate"):
        _REAL["os." + n] = getattr(os, n)
    builtins.open = _open
    io.open = _open
    os.open = _os_open
    _REAL["close"], _REAL["read"], _REAL["write"] = os.close, os.read, os.write
    _REAL["fsync"], _REAL["fdatasync"], _REAL["fstat"], _REAL["ftruncate"] = os.fsync, os.fdatasync, os.fstat, os.ftruncate
    os.close = _fdcall("close", lambda fs, of: fs.sys_close(of))
    os.read = _fdcall("read", lambda fs, of, n: fs.sys_read(of, n))
    os.write = _fdcall("write", lambda fs, of, b: fs.sys_write(of, bytes(b)))
    os.fsync = _fdcall("fsync", lambda fs, of: fs.sys_fsync(of))
    os.fdatasync = _fdcall("fdatasync", lambda fs, of: fs.sys_fsync(of))
    os.fstat = _fdcall("fstat", lambda fs, of: fs.sys_stat(of.path, count=False))
    os.ftruncate = _fdcall("ftruncate", lambda fs, of, n: fs.sys_ftruncate(of, n))
    _REAL["stat"], _REAL["lstat"], _REAL["mkdir"], _REAL["rmdir"] = os.stat, os.lstat, os.mkdir, os.rmdir
    _REAL["unlink"], _REAL["remove"], _REAL["listdir"] = os.unlink, os.remove, os.listdir
    os.stat = _pathcall("stat", _stat_sim)
    os.lstat = _pathcall("lstat", _stat_sim)
    os.mkdir = _pathcall("mkdir", lambda fs, p, *a, **k: fs.sys_mkdir(p))
    os.rmdir = _pathcall("rmdir", lambda fs, p, *a, **k: fs.sys_rmdir(p))
    os.unlink = _pathcall("unlink", lambda fs, p, *a, **k: fs.sys_unlink(p))
    os.remove = _pathcall("remove", lambda fs, p, *a, **k: fs.sys_unlink(p))
    os.listdir = _pathcall("listdir", lambda fs, p: fs.listdir(p))
    os.rename = _rename
    os.replace = _replace
    os.scandir = _scandir
    _INSTALLED = True


def mount(fs=None):
    global _FS
    install()
    _FS = fs or SimFS()
    return _FS


def umount():
    global _FS
    _FS = None


def current():
    return _FS
