"""Oracles shared by several properties (all exact unless stated)."""
import math

import numpy as np

from . import refmis
from .world import Monitor, same_value, snapshot_state
from .seams import SimHang

LOADER_DEFAULTS = {"iter": 0, "calls": 0, "beta": 0.0, "logz": 0.0, "steps": 0, "acceptance": 0.0, "efficiency": 0.0}


def diff_state(snap, state, relax_defaults=True, prefix_only=None):
    """Differences between a snapshot (world.snapshot_state) and a live StateManager.
    prefix_only=n: compare only the first n history batches (and not `current`)."""
    out = []
    cur = state._current
    if prefix_only is None:
        for k, v in snap["current"].items():
            got = cur.get(k)
            if same_value(v, got):
                continue
            if relax_defaults and v is None and k in LOADER_DEFAULTS and same_value(LOADER_DEFAULTS[k], got):
                continue
            out.append(f"current[{k}] saved={_short(v)} loaded={_short(got)}")
        if snap.get("n_dim") != state.n_dim:
            out.append(f"n_dim saved={snap.get('n_dim')} loaded={state.n_dim}")
    for k, lst in snap["history"].items():
        got = state._history.get(k, [])
        n = len(lst) if prefix_only is None else min(prefix_only, len(lst))
        if prefix_only is None and len(got) != len(lst):
            out.append(f"history[{k}] length saved={len(lst)} loaded={len(got)}")
            continue
        if len(got) < n:
            out.append(f"history[{k}] length {len(got)} < restored prefix {n}")
            continue
        for t in range(n):
            if not same_value(lst[t], got[t]):
                out.append(f"history[{k}][{t}] differs")
                break
    return out


def _short(v):
    if isinstance(v, np.ndarray):
        return f"array{v.shape}"
    return repr(v)


def run_postconditions(world, sampler, n_total, prop, keys=None):
    """C12 postconditions of a completed run (exact, vs RefMIS)."""
    keys = keys or {}
    st = sampler.state
    beta = st.get_current("beta")
    if not (1.0 - beta < 1e-4):
        world.violation(prop, "post.beta", f"run() returned with beta={beta!r}", **keys)
    b = refmis.batches_of(st)
    logw, logz, _ = refmis.mis(b, 1.0)
    ess = refmis.ess_from_logw(logw)
    if not (ess >= n_total * (1 - 1e-9)):
        world.violation(prop, "post.ess", f"ESS over history {ess:.3f} < n_total {n_total}", **keys)
    ev = sampler.evidence()[0]
    if not (ev is not None and math.isfinite(ev) and abs(float(ev) - float(logz)) <= 1e-9 * max(1.0, abs(float(logz)))):
        world.violation(prop, "post.evidence", f"evidence()={ev!r} but MIS logZ(1) over stored history={float(logz)!r}", **keys)
    return dict(ess=ess, logz=float(logz))


class IterCap(Monitor):
    """Liveness watchdog: a run may not take more than `cap` iterations."""

    def __init__(self, cap=400):
        self.cap = cap

    def after_commit(self, inc):
        if inc.n_commits > self.cap:
            raise SimHang(f"more than {self.cap} iterations in one incarnation")
