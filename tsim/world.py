"""World engine: the whole sampler under all seams, with read-only monitors.

A World owns one SimFS, one target, one Sched.  An Incarnation models one Python process:
it activates the RNG seam with its own stream, mounts the file system (only what survived),
replaces `multiprocess.Pool`, captures stdout/stderr, and registers the samplers it builds so
that the class-level hooks can find their monitors.  Hooks are installed on tempest's classes
(never on instances: `dill.dumps(self)` in the save path must not see harness objects).
"""
import io
import sys

import numpy as np

from . import seams, simfs
from .sched import Sched
from .simfs import SimCrash
from .simpool import PoolFactory, SimPool
from .targets import Target

_CTX = {}  # id(StateManager) -> Incarnation
_CUR = [None]  # incarnation currently inside Mutator.run (for module-level hooks)
_HOOKS_INSTALLED = False
HOOK_FIRED = {}


def forget(e):
    """Drop the frames an exception keeps alive.  CPython 3.12.1 segfaults when the cyclic GC
    collects a pickle framer's BytesIO together with its exported memoryview
    (bytesiobuf_releasebuffer); a pickling call that failed leaves exactly that behind in its
    traceback.  Clearing the frames releases the view by reference counting instead."""
    import traceback

    tb = getattr(e, "__traceback__", None)
    if tb is not None:
        try:
            traceback.clear_frames(tb)
        except Exception:
            pass
    try:
        e.__traceback__ = None
        e.__context__ = None
        e.__cause__ = None
    except Exception:
        pass
    return e


class LikeFault(Exception):
    """Ordinary exception raised by the user's likelihood (fault kind like.raise)."""


class LikeInterrupt(KeyboardInterrupt):
    """Ctrl-C arriving while the user's likelihood runs (fault kind like.interrupt): a BaseException, so `except Exception` does not see it."""


class Monitor:
    """Base class; override what you need.  Monitors only read."""

    def after_reweight(self, inc, weights): pass
    def after_train(self, inc, weights, mode_stats): pass
    def after_resample(self, inc): pass
    def before_mutate(self, inc, mode_stats): pass
    def on_mcmc_args(self, inc, kwargs): pass
    def on_mcmc_step(self, inc, runner, alpha): pass
    def after_mutate(self, inc): pass
    def after_commit(self, inc): pass
    def on_batch(self, inc, x, logl, blobs): pass
    def on_modes_fit(self, inc, how, u, weights, labels, ms): pass
    def before_save(self, inc, core, path): pass
    def after_save(self, inc, core, path, err): pass
    def after_load(self, inc, core, path, err): pass


def _fired(name):
    HOOK_FIRED[name] = HOOK_FIRED.get(name, 0) + 1


def _ctx(obj):
    st = getattr(obj, "state", None)
    return _CTX.get(id(st)) if st is not None else None


def install_hooks():
    global _HOOKS_INSTALLED
    if _HOOKS_INSTALLED:
        return
    from tempest.steps import reweight, train, resample, mutate
    from tempest import core as tcore, state_manager as tsm, mcmc as tmcmc, modes as tmodes

    def wrap_stage(cls, name, after):
        orig = getattr(cls, name)

        def wrapper(self, *a, **k):
            inc = _ctx(self)
            if inc is None:
                return orig(self, *a, **k)
            _fired(f"{cls.__name__}.{name}")
            return after(inc, self, orig, a, k)

        wrapper.__name__ = name
        setattr(cls, name, wrapper)

    def rw(inc, self, orig, a, k):
        inc.rng.mark("reweight")
        inc.fs_stage("reweight")
        w = orig(self, *a, **k)
        inc.stage = "reweighted"
        for m in inc.monitors:
            m.after_reweight(inc, w)
        return w

    def tr(inc, self, orig, a, k):
        inc.rng.mark("train")
        ms = orig(self, *a, **k)
        inc.stage = "trained"
        for m in inc.monitors:
            m.after_train(inc, a[0] if a else k.get("weights"), ms)
        return ms

    def rs(inc, self, orig, a, k):
        inc.rng.mark("resample")
        r = orig(self, *a, **k)
        inc.stage = "resampled"
        for m in inc.monitors:
            m.after_resample(inc)
        return r

    def mu(inc, self, orig, a, k):
        inc.rng.mark("mutate")
        ms = a[0] if a else k.get("mode_stats")
        for m in inc.monitors:
            m.before_mutate(inc, ms)
        prev = _CUR[0]
        _CUR[0] = inc
        try:
            r = orig(self, *a, **k)
        finally:
            _CUR[0] = prev
        inc.stage = "mutated"
        for m in inc.monitors:
            m.after_mutate(inc)
        return r

    wrap_stage(reweight.Reweighter, "run", rw)
    wrap_stage(train.Trainer, "run", tr)
    wrap_stage(resample.Resampler, "run", rs)
    wrap_stage(mutate.Mutator, "run", mu)

    def commit(inc, self, orig, a, k):
        r = orig(self, *a, **k)
        inc.stage = "committed"
        inc.n_commits += 1
        for m in inc.monitors:
            m.after_commit(inc)
        return r

    orig_commit = tsm.StateManager.commit_current_to_history

    def commit_wrapper(self, *a, **k):
        inc = _CTX.get(id(self))
        if inc is None or not inc.hook_commit:
            return orig_commit(self, *a, **k)
        _fired("StateManager.commit")
        return commit(inc, self, orig_commit, a, k)

    tsm.StateManager.commit_current_to_history = commit_wrapper

    orig_ll = tcore.SamplerCore._log_like

    def ll_wrapper(self, x):
        inc = _ctx(self)
        if inc is None:
            return orig_ll(self, x)
        _fired("SamplerCore._log_like")
        inc.rng.note_progress()
        k = inc.n_batches
        inc.n_batches += 1
        lf = inc.like_fault
        if lf is not None and lf.get("batch") == k:
            inc.world.bump("fault.fired." + lf["kind"])
            inc.like_fault = None
            if lf["kind"] == "like.raise":
                raise LikeFault(f"user likelihood failed at batch {k}")
            if lf["kind"] == "like.interrupt":
                raise LikeInterrupt(f"interrupted at batch {k}")
            inc.world.fs.dead = True
            inc.world.fs.fired.append(dict(lf, idx=inc.world.fs.nsys, syscall="likelihood", window=None))
            raise SimCrash(lf["kind"], f"likelihood batch {k}")
        tg = inc.world.target
        p0, z0 = tg.n_points, tg.n_neginf
        logl, blobs = orig_ll(self, x)
        # what the user's model itself evaluated and returned (the simulator owns it), not what the library made of the values
        dn, dz = tg.n_points - p0, tg.n_neginf - z0
        inc.batch_log.append((dn, dz) if dn else (len(logl), int(np.sum(np.isneginf(logl)))))
        for m in inc.monitors:
            m.on_batch(inc, x, logl, blobs)
        return logl, blobs

    tcore.SamplerCore._log_like = ll_wrapper

    orig_save = tcore.SamplerCore.save_sampler_state

    def save_wrapper(self, path, *a, **k):
        inc = _ctx(self)
        if inc is None:
            return orig_save(self, path, *a, **k)
        _fired("SamplerCore.save_sampler_state")
        for m in inc.monitors:
            m.before_save(inc, self, path)
        inc.rng.mark(f"save:{path}")
        inc.world.fs.open_window(f"save:{path}")
        err = None
        try:
            return orig_save(self, path, *a, **k)
        except Exception as e:  # SimCrash is a BaseException and passes through
            err = e
            raise
        finally:
            if not inc.world.fs.dead:
                inc.world.fs.close_window()
                for m in inc.monitors:
                    m.after_save(inc, self, path, err)

    tcore.SamplerCore.save_sampler_state = save_wrapper

    orig_load = tcore.SamplerCore.load_sampler_state

    def load_wrapper(self, path, *a, **k):
        inc = _ctx(self)
        if inc is None:
            return orig_load(self, path, *a, **k)
        _fired("SamplerCore.load_sampler_state")
        err = None
        try:
            return orig_load(self, path, *a, **k)
        except Exception as e:
            err = e
            raise
        finally:
            if not inc.world.fs.dead:
                for m in inc.monitors:
                    m.after_load(inc, self, path, err)

    tcore.SamplerCore.load_sampler_state = load_wrapper

    orig_pm = mutate.parallel_mcmc

    def pm_wrapper(*a, **k):
        inc = _CUR[0]
        if inc is not None:
            _fired("parallel_mcmc")
            for m in inc.monitors:
                m.on_mcmc_args(inc, k)
        return orig_pm(*a, **k)

    mutate.parallel_mcmc = pm_wrapper

    orig_upb = tmcmc.BaseMCMCRunner._update_progress_bar

    def upb_wrapper(self, alpha):
        inc = _CUR[0]
        if inc is not None:
            _fired("BaseMCMCRunner._update_progress_bar")
            inc.n_mcmc_steps += 1
            for m in inc.monitors:
                m.on_mcmc_step(inc, self, alpha)
        return orig_upb(self, alpha)

    tmcmc.BaseMCMCRunner._update_progress_bar = upb_wrapper

    for how in ("from_particles", "from_global"):
        orig_f = tmodes.ModeStatistics.__dict__[how].__func__

        def make(orig_f=orig_f, how=how):
            def f(cls, u, weights, *a, **k):
                ms = orig_f(cls, u, weights, *a, **k)
                for inc in list(_CTX.values()):
                    if inc.active:
                        _fired("ModeStatistics." + how)
                        labels = (a[0] if a else k.get("labels")) if how == "from_particles" else None
                        for m in inc.monitors:
                            m.on_modes_fit(inc, how, u, weights, labels, ms)
                        break
                return ms

            return classmethod(f)

        setattr(tmodes.ModeStatistics, how, make())

    _HOOKS_INSTALLED = True


class _Captured:
    """A stderr that cannot be pickled (like pytest's capture or a Jupyter stream)."""

    def __init__(self):
        self.buf = []

    def write(self, s):
        self.buf.append(s)
        return len(s)

    def flush(self):
        pass

    def __reduce__(self):
        raise TypeError("cannot pickle '_Captured' object (captured stderr)")


class _Clock:
    def __init__(self):
        self.t = 1_000_000.0

    def __call__(self):
        self.t += 0.01
        return self.t


class Incarnation:
    def __init__(self, world, no, plan=None, like_fault=None, rng_record=1, extremes=None):
        self.world = world
        self.no = no
        self.plan = plan
        self.like_fault = like_fault
        self.rng = seams.RngRun(world.sched.np_seed(f"librng{no}"), record=rng_record, extremes=extremes)
        self.monitors = world.monitors
        self.samplers = []
        self.batch_log = []
        self.n_batches = 0
        self.n_commits = 0
        self.n_mcmc_steps = 0
        self.stage = None
        self.active = False
        self.hook_commit = True
        self.pools = []
        self.notes = {}

    def fs_stage(self, label):
        pass

    def __enter__(self):
        w = self.world
        install_hooks()
        if self.no > 0 or w.fs.epoch > 0 or w.fs.dead:
            w.fs.reboot(self.plan)
        else:
            w.fs.plan = self.plan or {}
        simfs.mount(w.fs)
        self._seam = seams.active(self.rng)
        self._seam.__enter__()
        self._real_fp = seams.real_state_fingerprint()
        import multiprocess
        import tqdm.std

        self._mp_pool = multiprocess.Pool
        self.factory = PoolFactory(seed=w.sched.np_seed(f"factory{self.no}"), stats=w.stats)
        multiprocess.Pool = self.factory
        self._tq_time = tqdm.std.time
        tqdm.std.time = _Clock()
        self._stdout, self._stderr = sys.stdout, sys.stderr
        sys.stdout = io.StringIO()
        kind = w.case.get("stderr", "stringio")
        sys.stderr = _Captured() if kind == "captured" else io.StringIO()
        self.active = True
        return self

    def __exit__(self, et, ev, tb):
        import multiprocess
        import tqdm.std

        self.active = False
        self.world.fs.close_all()
        sys.stdout, sys.stderr = self._stdout, self._stderr
        tqdm.std.time = self._tq_time
        multiprocess.Pool = self._mp_pool
        self._seam.__exit__(None, None, None)
        for s in self.samplers:
            _CTX.pop(id(s.state), None)
        simfs.umount()
        if seams.real_state_fingerprint() != self._real_fp:
            self.world.escapes.append("real numpy global RNG state changed during an incarnation")
        if seams.SOFT_ESCAPES:
            self.world.soft_escapes.extend(f"{a} from {b}" for a, b in seams.SOFT_ESCAPES)
            del seams.SOFT_ESCAPES[:]
        if seams.ESCAPES:
            self.world.escapes.extend(f"{a} from {b}" for a, b in seams.ESCAPES)
            del seams.ESCAPES[:]
        for p in self.pools + getattr(self.factory, "made", []):
            self.world.pool_orders |= p.orders
        self.world.rng_runs.append(self.rng)
        self.world.bump("simulated_executions")
        self.world.bump("rng_seam_events", self.rng.n)
        self.world.bump("fs_seam_events", len(self.world.fs.log))
        return False

    # ------------------------------------------------------------------ building samplers
    def sampler_kwargs(self, **over):
        w = self.world
        c = w.case
        t = w.target
        kw = dict(c.get("cfg", {}))
        kw.update(over)
        mode = kw.pop("eval", c.get("eval", "scalar"))
        kw["n_dim"] = t.d
        kw["prior_transform"] = t.prior_transform
        if mode == "vector":
            kw["log_likelihood"] = t.loglike_vec
            kw["vectorize"] = True
        else:
            kw["log_likelihood"] = t.loglike
            kw["vectorize"] = False
            if t.nblobs:
                kw["blobs_dtype"] = "float64"
        if c.get("ll_ret") and mode != "vector" and not t.nblobs:
            t.ret = c["ll_ret"]
            kw["log_likelihood"] = t.loglike_np
        if c.get("ll_args"):
            kw["log_likelihood"] = t.loglike_vec_args if mode == "vector" else t.loglike_args
            kw["log_likelihood_args"] = [1.0]
            kw["log_likelihood_kwargs"] = dict(offset=0.0)
        if mode == "pool":
            pc = c.get("pool", {})
            faults = {"death_at_map": pc["death_at_map"]} if pc.get("death_at_map") is not None and self.no == pc.get("death_inc", 0) else None
            p = SimPool(pc.get("workers", 3), seed=w.sched.np_seed(f"pool{self.no}.{len(self.pools)}.{pc.get('order', 0)}"), faults=faults, stats=w.stats, lazy=bool(pc.get("lazy")))
            self.pools.append(p)
            kw["pool"] = p
        elif mode == "poolint":
            kw["pool"] = int(c.get("pool", {}).get("workers", 3))
        kw.setdefault("output_dir", "/simfs/out")
        kw.setdefault("output_label", "ps")
        return kw

    def new_sampler(self, **over):
        from tempest import Sampler

        s = Sampler(**self.sampler_kwargs(**over))
        self.register(s)
        return s

    def register(self, s):
        self.samplers.append(s)
        _CTX[id(s.state)] = self


class World:
    def __init__(self, case, monitors=()):
        self.case = case
        self.sched = Sched(case["seed"])
        self.target = Target(case["target"])
        self.fs = simfs.SimFS()
        self.monitors = list(monitors)
        self.stats = {}
        self.violations = []
        self.escapes = []
        self.soft_escapes = []
        self.pool_orders = set()
        self.rng_runs = []
        self.n_inc = 0
        self.probes = {}

    def incarnation(self, plan=None, like_fault=None, rng_record=1, extremes=None):
        inc = Incarnation(self, self.n_inc, plan=plan, like_fault=like_fault, rng_record=rng_record, extremes=extremes)
        self.n_inc += 1
        return inc

    def bump(self, key, n=1):
        self.stats[key] = self.stats.get(key, 0) + n

    def probe(self, key, n=1):
        self.probes[key] = self.probes.get(key, 0) + n

    def violation(self, prop, oracle, detail, **keys):
        if sum(1 for v in self.violations if v["oracle"] == oracle) < 3:
            self.violations.append(dict(property=prop, oracle=oracle, detail=str(detail)[:600], keys=keys))


def state_digest(state):
    """Digest of everything a StateManager holds (bitwise on arrays)."""
    import hashlib

    h = hashlib.blake2b(digest_size=16)

    def feed(v):
        if isinstance(v, np.ndarray):
            h.update(str(v.dtype).encode() + str(v.shape).encode() + np.ascontiguousarray(v).tobytes())
        elif isinstance(v, (list, tuple)):
            h.update(b"[")
            for e in v:
                feed(e)
            h.update(b"]")
        elif isinstance(v, (float, np.floating)):
            h.update(np.float64(v).tobytes())
        else:
            h.update(repr(v).encode())

    for k in sorted(state._current):
        h.update(k.encode())
        feed(state._current[k])
    for k in sorted(state._history):
        h.update(k.encode())
        feed(state._history[k])
    return h.hexdigest()


def snapshot_state(state):
    """Deep snapshot of a StateManager (read directly, independent of to_dict())."""
    import copy

    return dict(
        current={k: copy.deepcopy(v) for k, v in state._current.items()},
        history={k: [copy.deepcopy(e) for e in v] for k, v in state._history.items()},
        n_dim=state.n_dim,
    )


def same_value(a, b):
    """Bitwise/NaN-aware equality for state values."""
    if a is None or b is None:
        return a is None and b is None
    if isinstance(a, np.ndarray) or isinstance(b, np.ndarray):
        a, b = np.asarray(a), np.asarray(b)
        if a.shape != b.shape or a.dtype.kind != b.dtype.kind:
            return False
        if a.dtype.kind == "f":
            return bool(np.array_equal(a, b, equal_nan=True))
        return bool(np.array_equal(a, b))
    if isinstance(a, (float, np.floating)) and isinstance(b, (float, np.floating, int)):
        return (a == b) or (a != a and b != b)
    return bool(a == b)
