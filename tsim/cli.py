"""Entry point: /verif/check <id> [--tier quick|thorough] [--replay file]."""
import os
import sys

if os.environ.get("PYTHONHASHSEED") != "0" and not os.environ.get("TSIM_KEEP_HASHSEED"):
    os.environ["PYTHONHASHSEED"] = "0"
    os.execv(sys.executable, [sys.executable] + sys.argv)

sys.path.insert(0, os.path.dirname(os.path.dirname(os.path.abspath(__file__))))

import importlib  # noqa: E402


def main():
    if len(sys.argv) < 2:
        print("usage: check <property-id|selftest> [--tier quick|thorough] [--replay file]")
        return 2
    name = sys.argv[1].lower()
    import tsim  # noqa: F401  (installs seams before tempest is imported)
    from tsim import harness

    if name == "selftest":
        from tsim import selftest

        return selftest.main(sys.argv[2:])
    mod = importlib.import_module(f"tsim.props.{name}")
    return harness.main(mod, sys.argv[2:])


if __name__ == "__main__":
    sys.exit(main())
