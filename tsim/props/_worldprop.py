"""Shared plumbing for the world-engine properties (C04 C05 C07 C11 C12 C13 C14 C18)."""
import copy
import json
import random

from .. import gen, scenario
from ..sched import Sched
from .. import world as W


def std_case(rnd, seed, *, kinds=("gauss", "bimodal", "expedge", "corr"), scenarios=("plain", "plain", "crash_resume", "rerun"),
             blobs=(0, 0, 1, 2), evals=("scalar", "vector", "pool", "poolint"), boundaries=False, hole=None, vv=True, clustering=None,
             cluster_every=(1,), n_max_clusters=(None,), n_totals=(64, 96, 128, 192), small=True, d=None):
    nb = rnd.choice(list(blobs))
    tgt = gen.gen_target(rnd, kinds=kinds, d=d, blobs=nb, hole=hole)
    cfg = gen.gen_cfg(rnd, tgt["d"], vv=vv, boundaries=boundaries, clustering=clustering, cluster_every=cluster_every, n_max_clusters=n_max_clusters, small=small)
    if tgt["kind"] == "vonmises":
        cfg.pop("reflective", None)
        cfg["periodic"] = [0]
    if tgt["kind"] == "halfgauss" and rnd.random() < 0.7:
        cfg.pop("periodic", None)
        cfg["reflective"] = [0]
    case = dict(seed=seed, target=tgt, cfg=cfg, n_total=rnd.choice(list(n_totals)), scenario=rnd.choice(list(scenarios)))
    if cfg["n_particles"] >= 500:
        # large batches are there for block-size / threshold effects, not for long or high-dimensional runs: keep them cheap (two thorough-tier cases with
        # 8 dimensions, 7 steps and a tight volume-variation target exceeded the per-case timeout under load)
        if tgt["d"] >= 5:
            cfg["n_particles"] = 64 if not cfg.get("clustering") else 16 * tgt["d"]
        else:
            case["n_total"] = 2 * cfg["n_particles"]
            cfg.pop("n_steps", None)
            cfg.pop("n_max_steps", None)
            cfg["ess_ratio"] = min(cfg.get("ess_ratio", 2.0), 2.0)
            if cfg.get("volume_variation") is not None:
                cfg["volume_variation"] = max(cfg["volume_variation"], 0.25)
    case.update(gen.gen_eval(rnd, blobs=bool(nb), modes=evals))
    if rnd.random() < 0.03 and not nb and "vector" in evals:
        # batches larger than any internal block size a vectorised path might use (not a multiple of a power of two)
        case["cfg"]["n_particles"] = rnd.choice([300, 389, 500])
        case["cfg"]["clustering"] = False
        case["eval"] = "vector"
        case.pop("pool", None)
        case["n_total"] = 512
    if case.get("eval") == "vector" and rnd.random() < 0.3:
        # the vectorised user model returns the same (re-used) output array on every call, or a read-only view of it
        case["target"]["vec_out"] = rnd.choice(["buffer", "buffer", "readonly"])
    if rnd.random() < 0.2:
        case["progress"] = True  # the progress-bar code paths (update_stats in every stage and MCMC step) take part
    if case["scenario"] == "crash_resume":
        case["save_every"] = rnd.choice([1, 2, 3])
        case["like_fault"] = dict(kind="crash.process", batch=rnd.randrange(3, 40))
        if rnd.random() < 0.3:
            case["reconfig"] = dict(n_particles=cfg["n_particles"] * rnd.choice([2, 3]))
        if rnd.random() < 0.3:
            case["resume_n_total"] = rnd.choice([case["n_total"] * 2, case["n_total"] * 3, max(32, case["n_total"] // 2)])
    elif case["scenario"] == "resume_final":
        case["save_every"] = rnd.choice([1, 2, 3])
        case["resume_which"] = rnd.choice(["final", "final", "latest"])
        case["resume_n_total"] = rnd.choice([case["n_total"], max(16, case["n_total"] // 2), max(16, case["n_total"] // 4), case["n_total"] * 2])
    elif case["scenario"] == "rewind":
        case["save_every"] = rnd.choice([1, 2, 3])
        case["rewind_to"] = rnd.choice(["first", "middle"])
        if rnd.random() < 0.3:
            case["resume_n_total"] = rnd.choice([case["n_total"] * 2, max(32, case["n_total"] // 2)])
    elif case["scenario"] == "load_only":
        case["save_every"] = rnd.choice([1, 2, 3])
        case["load_which"] = rnd.choice(["final", "latest", "first"])
    elif case["scenario"] == "extra_samples":
        case["n_extra"] = rnd.choice([1, 2, 3])
    elif case["scenario"] == "like_raise":
        case["like_fault"] = dict(kind=rnd.choice(["like.raise", "like.raise", "like.interrupt"]), batch=rnd.randrange(2, 30))
        if rnd.random() < 0.5:
            case["after_exc"] = rnd.choice(["run", "run", "sample_then_run"])
            case["n_total2"] = rnd.choice([case["n_total"], case["n_total"] * 2, 64])
    elif case["scenario"] == "pool_death":
        case["eval"] = "pool"
        case["pool"] = dict(workers=rnd.choice([2, 3, 7]), death_at_map=rnd.randrange(1, 30))
    elif case["scenario"] == "rerun":
        case["n_total2"] = rnd.choice([64, 128])
    return case


def generic_shrink(case):
    c = case

    def mod(**kw):
        d = copy.deepcopy(c)
        for k, v in kw.items():
            if v is None:
                d.pop(k, None)
            else:
                d[k] = v
        return d

    if c.get("scenario", "plain") != "plain":
        yield mod(scenario="plain", like_fault=None, save_every=None, reconfig=None)
    if c.get("reconfig"):
        yield mod(reconfig=None)
    if c.get("resume_n_total"):
        yield mod(resume_n_total=None)
    if c.get("eval", "scalar") != "scalar":
        yield mod(eval="scalar", pool=None)
    if c["target"].get("blobs"):
        t = copy.deepcopy(c["target"])
        t.pop("blobs")
        yield mod(target=t)
    cfg = c["cfg"]
    for k, v in (("clustering", False), ("volume_variation", None), ("n_steps", None), ("n_max_steps", None), ("periodic", None), ("reflective", None)):
        if cfg.get(k) not in (None, False) and cfg.get(k) != v:
            n = dict(cfg)
            if v is None:
                n.pop(k)
            else:
                n[k] = v
            yield mod(cfg=n)
    if cfg.get("sample") == "tpcn":
        yield mod(cfg=dict(cfg, sample="rwm"))
    if cfg.get("resample") == "syst":
        yield mod(cfg=dict(cfg, resample="mult"))
    if c["n_total"] > 32:
        yield mod(n_total=max(32, c["n_total"] // 2))
    if cfg.get("n_particles", 0) > 8:
        yield mod(cfg=dict(cfg, n_particles=max(8, cfg["n_particles"] // 2)))
    if c["target"].get("kind") not in ("gauss",) and not c["target"].get("cut"):
        from .. import targets as T

        yield mod(target=dict(T.spec_gauss(d=c["target"]["d"]), kind="gauss", **({"blobs": c["target"]["blobs"]} if c["target"].get("blobs") else {})))
    if c["target"]["d"] > 1 and c["target"].get("kind") == "gauss" and not cfg.get("periodic") and not cfg.get("reflective"):
        from .. import targets as T

        t = dict(T.spec_gauss(d=1), kind="gauss")
        for k in ("blobs", "shift"):
            if c["target"].get(k):
                t[k] = c["target"][k]
        yield mod(target=t)


def run_with(case, monitors, extra=None):
    """Execute the scenario with the given monitors; package the result for the harness."""
    h0 = dict(W.HOOK_FIRED)
    w, info = scenario.execute(case, monitors)
    stats = dict(w.stats)
    for k, v in W.HOOK_FIRED.items():  # how often each observation seam fired in this case (a seam stuck at zero would mean blind monitors)
        if v - h0.get(k, 0):
            stats["seam." + k] = v - h0.get(k, 0)
    stats["scenario." + info["kind"]] = 1
    stats["iterations"] = sum(info["iters"])
    if info["completed"]:
        stats["completed"] = 1
    if info["crashed"]:
        stats["fault.fired.crash.process"] = stats.get("fault.fired.crash.process", 0) + 1
    if info["resumed"]:
        stats["resumed_from_checkpoint"] = 1
    if info.get("exc"):
        stats["ended_with_exception"] = 1
        stats["exceptions"] = [str(info["exc"])[:90]]
    if info.get("hang"):
        stats["watchdog"] = 1
    dig = [r.digest() for r in w.rng_runs] + [W.state_digest(info["sampler"].state) if info.get("sampler") is not None else None]
    out = dict(violations=list(w.violations), stats=stats, probes=dict(w.probes), digest=json.dumps(dig),
               distinct_key=scenario.cfg_class(case), nontrivial=bool(sum(info["iters"]) >= 3), info={k: v for k, v in info.items() if k != "sampler"})
    if extra:
        out.update(extra(w, info))
    return out, w, info
