"""C17 - accessors never alias internal state; committed history is append-only (op-machine engine).

A seeded generator produces interleavings of StateManager / Sampler operations with a `scribble` operation
that overwrites, in place, any array handed out by an earlier accessor.  `Exec` interprets JSON-able
operations and records its own op list: that list is the replay file, minimised by dropping operations.
(A Hypothesis RuleBasedStateMachine was built first; under a fixed @seed its generation still depended on
process history in this sandbox - e.g. on which modules had been imported - which broke the same-seed-twice
self-test, so generation uses a plain PRNG stream instead.  See DESIGN.md.)  After every operation the
StateManager's stored data must equal a plain-Python reference store (RefStore).
"""
import copy
import json
import random

import numpy as np

from .. import refmis, seams, simfs
from ..sched import Sched
from ..world import World, same_value

PROP = "C17"
LEVEL = "exploration"
RULE = ("seeded operation sequences (one derived PRNG value per case) over every public StateManager method (set/update with copy in {True,False}, commit(strict), "
        "get_current/get_history/get_last_history, compute_logw_and_logz, compute_results, to_dict, from_dict, update_from_dict, save_state/load_state through SimFS) and over "
        "Sampler.sample()/results()/posterior()/state.to_dict() on live short runs, plus scribble(handle); after each operation all stored data are compared bitwise with a reference "
        "store; evaluations = operations executed; distinct = distinct (accessor, scribbled) pairs and operation bigrams; non-trivial = the example scribbled on at least one handle")
ASSUMPTIONS = ["arrays passed with copy=False and arrays passed into from_dict/update_from_dict are donated, hence never scribbled; arrays passed with copy=True (also read-only ones, thawed later) stay the caller's and are scribbled", "histories whose batches differ in size (as after a resume with another n_particles) are included; an accessor that cannot stack them may refuse with ValueError, what it returns otherwise is judged like any other result"]

N, D = 3, 2
ARR_KEYS = ("u", "x", "logl", "blobs", "assignments")
SCALAR_KEYS = ("acceptance", "steps", "efficiency", "ess", "beta", "logz", "calls", "iter")
ALL_KEYS = ARR_KEYS + SCALAR_KEYS
HIST_KEYS = ("u", "x", "logl", "blobs", "iter", "logz", "calls", "steps", "efficiency", "ess", "acceptance", "beta")


class Violation(Exception):
    def __init__(self, accessor, detail):
        super().__init__(detail)
        self.accessor = accessor
        self.detail = detail


def make_value(key, vseed, n=N):
    r = np.random.RandomState(vseed % (2**31))
    if key in ("u", "x"):
        return r.random_sample((n, D))
    if key in ("logl", "blobs"):
        return r.normal(size=n)
    if key == "assignments":
        return r.randint(0, 3, size=n)
    if key == "beta":
        return float(r.random_sample())
    if key in ("calls", "iter", "steps"):
        return int(r.randint(0, 1000))
    return float(r.normal())


def arrays_in(obj, path=""):
    """All ndarray objects nested in dicts/lists/tuples, with a path."""
    out = []
    if isinstance(obj, np.ndarray) and obj.dtype == object:
        for i, v in enumerate(obj.ravel()):  # an object array is a container: what the caller can write into are its elements
            out += arrays_in(v, f"{path}[{i}]")
    elif isinstance(obj, np.ndarray):
        out.append((path, obj))
    elif isinstance(obj, dict):
        for k in sorted(obj, key=str):  # library dict order follows PYTHONHASHSEED (frozenset of keys)
            out += arrays_in(obj[k], f"{path}[{k!r}]")
    elif isinstance(obj, (list, tuple)):
        for i, v in enumerate(obj):
            out += arrays_in(v, f"{path}[{i}]")
    return out


class Exec:
    """Interpreter of operations against the real StateManager/Sampler and the reference store."""

    def __init__(self):
        from tempest.state_manager import StateManager

        self.SM = StateManager
        self.sm = StateManager(D)
        self.cur = {k: None for k in ALL_KEYS}
        self.hist = {k: [] for k in HIST_KEYS}
        self.handles = []  # (accessor, path, array)
        self.ops = []
        self.last_scribbled = None
        self.n_scribbles = 0
        self.pairs = set()
        self.sampler = None
        self.world = None
        self.inc = None
        self.fs = simfs.SimFS()

    # ------------------------------------------------------------------ model helpers
    def _hand(self, accessor, value):
        for path, a in arrays_in(value):
            if len(self.handles) < 200:
                self.handles.append((accessor, path, a))

    def _expect(self, accessor, got, want, what=""):
        if not self._eq(got, want):
            raise Violation(accessor, f"{accessor}{what} returned {self._short(got)} but the stored value is {self._short(want)}"
                            + (f" (an array returned earlier by {self.last_scribbled} had been overwritten by the caller)" if self.last_scribbled else ""))

    def _eq(self, a, b):
        if isinstance(a, dict) and isinstance(b, dict):
            return a.keys() == b.keys() and all(self._eq(a[k], b[k]) for k in a)
        if isinstance(a, (list, tuple)) and isinstance(b, (list, tuple)):
            return len(a) == len(b) and all(self._eq(x, y) for x, y in zip(a, b))
        return same_value(a, b)

    def _short(self, v):
        s = repr(v)
        return s if len(s) < 120 else s[:117] + "..."

    def sync_model_from_internals(self):
        self.cur = {k: copy.deepcopy(self.sm._current.get(k)) for k in ALL_KEYS}
        self.hist = {k: [copy.deepcopy(e) for e in self.sm._history.get(k, [])] for k in HIST_KEYS}

    def check_internals(self, after):
        for k in ALL_KEYS:
            if not same_value(self.sm._current.get(k), self.cur[k]):
                who = self.last_scribbled or after
                raise Violation(who, f"after {after}: current[{k}] changed to {self._short(self.sm._current.get(k))}, expected {self._short(self.cur[k])}"
                                + (f" - an array obtained from {self.last_scribbled} shares memory with internal state" if self.last_scribbled else ""))
        for k in HIST_KEYS:
            got = self.sm._history.get(k, [])
            if len(got) != len(self.hist[k]):
                raise Violation(after, f"after {after}: history[{k}] has {len(got)} batches, expected {len(self.hist[k])} (append-only, one batch per commit)")
            for t, (g, w) in enumerate(zip(got, self.hist[k])):
                if not same_value(g, w):
                    who = self.last_scribbled or after
                    raise Violation(who, f"after {after}: history[{k}][{t}] was altered"
                                    + (f" - an array obtained from {self.last_scribbled} shares memory with a committed batch" if self.last_scribbled else ""))

    def mis_ready(self):
        n = len(self.hist["beta"])
        return n > 0 and len(self.hist["logz"]) == n and len(self.hist["logl"]) == n

    # ------------------------------------------------------------------ operations
    def do(self, op):
        self.ops.append(op)
        name = op[0]
        getattr(self, "op_" + name)(*op[1:])
        self.check_internals(name)
        if name != "scribble":
            self.pairs.add((self.ops[-2][0] if len(self.ops) > 1 else "-", name))

    def _give(self, accessor, v, cp, frozen):
        """An array the caller passes in with copy=True stays the caller's: it may be overwritten (or, if it was passed read-only, made writable
        again and overwritten) later without any effect on the state.  It is kept as a handle for later scribbles."""
        if isinstance(v, np.ndarray):
            if frozen:
                v.setflags(write=False)
            if cp:
                self._hand("input:" + accessor, v)

    def op_set(self, key, vseed, cp, frozen=False):
        v = make_value(key, vseed)
        self.cur[key] = copy.deepcopy(v)
        self._give("set_current", v, cp, frozen)
        self.sm.set_current(key, v, copy=cp)
        self.last_scribbled = None

    def op_update(self, keys, vseed, cp, frozen=False):
        d = {k: make_value(k, vseed + i) for i, k in enumerate(keys)}
        for k, v in d.items():
            self.cur[k] = copy.deepcopy(v)
            self._give("update_current", v, cp, frozen)
        self.sm.update_current(d, copy=cp)
        self.last_scribbled = None

    def op_update_n(self, vseed, n):
        """A whole particle set of another size (the batch size changed, as after a resume with another n_particles), then commit."""
        d = {k: make_value(k, vseed + i, n) for i, k in enumerate(ALL_KEYS)}
        self.sm.update_current(d, copy=True)
        for k, v in d.items():
            self.cur[k] = copy.deepcopy(v)
        self.last_scribbled = None

    def _ragged(self, key):
        return len({np.shape(e) for e in self.hist[key]}) > 1

    def op_commit(self, strict):
        missing = [k for k in ("beta", "logl") if self.cur[k] is None]
        if strict and missing:
            try:
                self.sm.commit_current_to_history(strict=True)
            except ValueError:
                return
            raise Violation("commit_current_to_history", "strict commit with missing required keys did not raise")
        self.sm.commit_current_to_history(strict=strict)
        for k in HIST_KEYS:
            if self.cur[k] is not None:
                self.hist[k].append(copy.deepcopy(self.cur[k]))
        self.last_scribbled = None

    def op_get_current(self, key):
        got = self.sm.get_current(key)
        self._expect("get_current", got, self.cur if key is None else self.cur[key], f"({key!r})")
        self._hand("get_current", got)

    def op_get_history(self, key, index, flat):
        lst = self.hist[key]
        if index is not None:
            if not lst:
                return
            index = index % len(lst)
            got = self.sm.get_history(key, index=index)
            self._expect("get_history", got, lst[index], f"({key!r}, index={index})")
        elif flat:
            if not lst or not all(isinstance(e, np.ndarray) for e in lst):
                return
            got = self.sm.get_history(key, flat=True)
            self._expect("get_history", got, np.concatenate(lst), f"({key!r}, flat=True)")
        elif self._ragged(key):
            # batches of different sizes cannot be stacked: the accessor may refuse (it does, with ValueError) or return a container of batches;
            # whatever it returns must hold the stored values and is handed to the caller like any other result
            try:
                got = self.sm.get_history(key)
            except ValueError:
                return
            self._expect("get_history", [np.asarray(e) for e in got], [np.asarray(e) for e in lst], f"({key!r}) [batches of unequal size]")
        else:
            got = self.sm.get_history(key)
            self._expect("get_history", got, np.array(lst), f"({key!r})")
        self._hand("get_history", got)

    def op_get_last(self, key):
        got = self.sm.get_last_history(key)
        self._expect("get_last_history", got, self.hist[key][-1] if self.hist[key] else None, f"({key!r})")
        self._hand("get_last_history", got)

    def op_logw(self, beta):
        if not self.mis_ready():
            return
        logw, logz = self.sm.compute_logw_and_logz(beta)
        b = [(float(self.hist["beta"][t]), float(self.hist["logz"][t]), self.hist["logl"][t]) for t in range(len(self.hist["beta"]))]
        _, lz, lwn = refmis.mis(b, beta)
        if logw.shape != lwn.shape or float(np.max(np.abs(logw - lwn.astype(float)))) > 1e-8 or abs(logz - float(lz)) > 1e-8:
            raise Violation("compute_logw_and_logz", f"compute_logw_and_logz({beta}) does not match the stored history" + (f" (after the caller overwrote an array from {self.last_scribbled})" if self.last_scribbled else ""))
        self._hand("compute_logw_and_logz", logw)

    def op_results(self):
        if not self.mis_ready():
            return
        shapes_ok = all(len(self.hist[k]) in (0, len(self.hist["beta"])) for k in HIST_KEYS)
        if any(self._ragged(k) for k in HIST_KEYS):
            try:
                got = self.sm.compute_results()
            except ValueError:
                return
            if any(k not in got for k in HIST_KEYS):
                # observed on the pinned tree: the refusal above leaves a partly filled cache behind, which the next call returns without raising;
                # an incomplete result is not an aliasing matter - what it does contain is still handed to the caller below
                self.pairs.add(("compute_results", "partial_after_refusal"))
                self._hand("compute_results", got)
                return
            for k in HIST_KEYS:
                self._expect("compute_results", [np.asarray(e) for e in got[k]], [np.asarray(e) for e in self.hist[k]], f"()[{k!r}] [batches of unequal size]")
            self._hand("compute_results", got)
            return
        got = self.sm.compute_results()
        want = {k: np.array(self.hist[k]) for k in HIST_KEYS}
        b = [(float(self.hist["beta"][t]), float(self.hist["logz"][t]), self.hist["logl"][t]) for t in range(len(self.hist["beta"]))]
        want_lw = refmis.mis(b, 1.0)[2].astype(float)
        for k in HIST_KEYS:
            self._expect("compute_results", got[k], want[k], f"()[{k!r}]")
        if got["logw"].shape != want_lw.shape or float(np.max(np.abs(got["logw"] - want_lw))) > 1e-8:
            raise Violation("compute_results", "compute_results()['logw'] does not match the stored history" + (f" (after the caller overwrote an array from {self.last_scribbled})" if self.last_scribbled else ""))
        self._hand("compute_results", got)
        if self.sampler is not None:
            got2 = self.sampler.results()
            self._hand("Sampler.results", got2)

    def op_to_dict(self):
        got = self.sm.to_dict()
        self._expect("to_dict", got["_current"], self.cur, "()['_current']")
        self._expect("to_dict", {k: got["_history"][k] for k in HIST_KEYS}, self.hist, "()['_history']")
        self._hand("to_dict", got)

    def op_from_dict(self):
        d = self.sm.to_dict()
        self.sm = self.SM.from_dict(d)
        if self.sampler is not None:
            raise RuntimeError("from_dict not used on live samplers")

    def op_update_from_dict(self, keys, vseed):
        d = {"_current": {k: make_value(k, vseed + i) for i, k in enumerate(keys)}}
        want = copy.deepcopy(d["_current"])
        self.sm.update_from_dict(d)
        self.cur.update(want)
        self.last_scribbled = None

    def op_import_partial(self, drop, fresh, via_file):
        """Import a state dictionary (or a state file) that lacks some recorded quantities, as written by an older version or
        by a caller who exports only what they need.  Documented semantics: merge - keys present are replaced, absent keys keep
        what the manager holds (nothing, for a fresh manager).  Later commits must still append one batch per quantity."""
        if self.sampler is not None:
            return
        d = self.sm.to_dict()
        for k in drop:
            d["_history"].pop(k, None)
        target = self.SM(D) if fresh else self.sm
        if via_file:
            import dill, io, sys

            simfs.mount(self.fs)
            try:
                if "/simfs/sm" not in self.fs.dirs:
                    self.fs.sys_mkdir("/simfs/sm")
                with open("/simfs/sm/partial.state", "wb") as f:
                    dill.dump(d, f)
                so = sys.stdout
                sys.stdout = io.StringIO()
                try:
                    target.load_state("/simfs/sm/partial.state")
                finally:
                    sys.stdout = so
                    self.fs.close_all()
            finally:
                simfs.umount()
        else:
            target.update_from_dict(d)
        if fresh:
            for k in drop:
                self.hist[k] = []
            self.sm = target
        self.last_scribbled = None

    def op_save_load(self):
        simfs.mount(self.fs)
        try:
            import io, sys

            so = sys.stdout
            sys.stdout = io.StringIO()
            try:
                if "/simfs/sm" not in self.fs.dirs:
                    self.fs.sys_mkdir("/simfs/sm")
                self.sm.save_state("/simfs/sm/ck.state")
                new = self.SM(D)
                new.load_state("/simfs/sm/ck.state")
            finally:
                sys.stdout = so
                self.fs.close_all()
        finally:
            simfs.umount()
        self.sm = new

    def op_scribble(self, idx, mode):
        if not self.handles:
            return
        acc, path, a = self.handles[idx % len(self.handles)]
        if a.size == 0:
            return
        if not a.flags.writeable:
            try:
                a.setflags(write=True)  # legal for an array that owns its data (or whose base is writable): "read-only" is a flag, not a guarantee
            except ValueError:
                return
        if mode == 0:
            a[...] = 12345 if a.dtype.kind in "iu" else np.nan if a.dtype.kind == "f" else a
        elif mode == 1:
            a.flat[0] = a.flat[0] + 1 if a.dtype.kind in "iuf" else a.flat[0]
        else:
            a[...] = -a if a.dtype.kind in "iuf" else a
            if a.dtype.kind in "iuf":
                a.flat[-1] = 7
        self.last_scribbled = f"{acc}(){path}"
        self.n_scribbles += 1
        self.pairs.add((acc, "scribbled"))

    # ------------------------------------------------------------------ sampler-level operations
    def op_s_new(self, cfgseed):
        from ..targets import spec_gauss

        r = random.Random(cfgseed)
        nb = r.choice([0, 1])
        case = dict(seed=cfgseed, target=dict(spec_gauss(d=r.choice([1, 2])), blobs=nb), cfg=dict(n_particles=8, clustering=False, sample=r.choice(["tpcn", "rwm"]), resample=r.choice(["mult", "syst"]), random_state=cfgseed % 1000), eval="scalar")
        self.end_sampler()
        self.world = World(case)
        self.inc = self.world.incarnation(rng_record=0)
        self.inc.__enter__()
        s = self.inc.new_sampler()
        s.run(n_total=24, progress=False)
        self.sampler = s
        self.sm = s.state
        self.handles = []
        self.sync_model_from_internals()
        self.last_scribbled = None

    def end_sampler(self):
        if self.inc is not None:
            self.inc.__exit__(None, None, None)
            self.inc = None
            self.sampler = None

    def op_s_sample(self):
        if self.sampler is None:
            return
        before = {k: len(v) for k, v in self.sm._history.items()}
        prefix = {k: [copy.deepcopy(e) for e in v] for k, v in self.sm._history.items()}
        ret = self.sampler.sample()
        for k, v in self.sm._history.items():
            grew = len(v) - before[k]
            if self.sm._current.get(k) is not None and grew != 1:
                raise Violation("Sampler.sample", f"one iteration appended {grew} batches to history[{k}]")
            for t in range(before[k]):
                if not same_value(v[t], prefix[k][t]):
                    raise Violation(self.last_scribbled or "Sampler.sample", f"iteration altered the earlier batch history[{k}][{t}]")
        self.sync_model_from_internals()
        self.last_scribbled = None
        self._expect("Sampler.sample", {k: ret[k] for k in ALL_KEYS}, self.cur, "() return value")
        self._hand("Sampler.sample", ret)

    def op_s_posterior(self, bits):
        if self.sampler is None:
            return
        o = dict(resample=bool(bits & 1), trim_importance_weights=bool(bits & 2), return_blobs=bool(bits & 4), return_logw=bool(bits & 8))
        with_seed = seams.current().rs.get_state()
        out1 = self.sampler.posterior(**o)
        seams.current().rs.set_state(with_seed)
        out2 = self.sampler.posterior(**o)
        if not self._eq(list(out1), list(out2)):
            raise Violation("Sampler.posterior", f"posterior({o}) changed between two identical calls" + (f" after the caller overwrote an array from {self.last_scribbled}" if self.last_scribbled else ""))
        self._hand("Sampler.posterior", list(out1))

    def op_s_evidence(self):
        if self.sampler is None:
            return
        self.sampler.evidence()


def replay_ops(ops):
    ex = Exec()
    try:
        for op in ops:
            ex.do(op)
    except Violation as v:
        return ex, v
    finally:
        ex.end_sampler()
    return ex, None


def gen_ops(rnd, mode, n_ops):
    """Seeded generation of one operation sequence (plain PRNG: exactly repeatable from the case)."""
    ops = []
    readers = [
        lambda: ["scribble", rnd.randrange(200), rnd.randrange(3)],
        lambda: ["scribble", rnd.randrange(200), rnd.randrange(3)],
        lambda: ["to_dict"],
        lambda: ["results"],
        lambda: ["get_current", rnd.choice((None,) + ALL_KEYS)],
        lambda: ["get_history", rnd.choice(HIST_KEYS), rnd.choice([None, None, rnd.randrange(50)]), rnd.random() < 0.5],
        lambda: ["get_last", rnd.choice(HIST_KEYS)],
        lambda: ["logw", rnd.choice([0.0, 0.3, 1.0])],
    ]
    if mode == "sm":
        writers = [
            lambda: ["set", rnd.choice(ALL_KEYS), rnd.randrange(10**6), rnd.random() < 0.5, rnd.random() < 0.25],
            lambda: ["update", rnd.sample(ALL_KEYS, rnd.randrange(1, 7)), rnd.randrange(10**6), rnd.random() < 0.5, rnd.random() < 0.25],
            lambda: ["update", list(ALL_KEYS), rnd.randrange(10**6), True, rnd.random() < 0.25],
            lambda: ["commit", False],
            lambda: ["commit", rnd.random() < 0.5],
            lambda: ["update_n", rnd.randrange(10**6), rnd.choice([2, 5])],
            lambda: ["from_dict"],
            lambda: ["update_from_dict", rnd.sample(ALL_KEYS, rnd.randrange(1, 5)), rnd.randrange(10**6)],
            lambda: ["save_load"],
            lambda: ["import_partial", rnd.sample(["steps", "efficiency", "acceptance", "calls", "ess", "blobs"], rnd.randrange(1, 5)), rnd.random() < 0.7, rnd.random() < 0.4],
        ]
        if rnd.random() < 0.7:  # most sequences start from a committed, MIS-ready history
            for _ in range(rnd.randrange(1, 4)):
                ops.append(["update", list(ALL_KEYS), rnd.randrange(10**6), rnd.random() < 0.8])
                ops.append(["commit", False])
    else:
        writers = [lambda: ["s_sample"], lambda: ["s_posterior", rnd.randrange(16)], lambda: ["s_posterior", rnd.randrange(16)], lambda: ["s_evidence"]]
        ops.append(["s_new", rnd.randrange(10**6)])
    while len(ops) < n_ops:
        ops.append(rnd.choice(readers)() if rnd.random() < 0.6 else rnd.choice(writers)())
    return ops


def run_case(case):
    if "ops" in case:
        seqs = [case["ops"]]
    else:
        rnd = random.Random(case["seed"])
        seqs = [gen_ops(rnd, case["mode"], rnd.randrange(4, case["steps"] + 1)) for _ in range(case["examples"])]
    viol, pairs, nops, nscr, with_scr = [], set(), 0, 0, 0
    first = None
    for ops in seqs:
        ex, v = replay_ops(ops)
        nops += len(ex.ops)
        nscr += ex.n_scribbles
        with_scr += 1 if ex.n_scribbles else 0
        pairs |= ex.pairs
        if first is None:
            first = ops
        if v is not None:
            done = ex.ops  # the prefix that was executed up to and including the failing op
            viol.append(dict(property=PROP, oracle="alias", detail=v.detail.replace("\n", " ")[:500] + f" [{len(done)} ops]", keys=dict(accessor=v.accessor.split("(")[0]),
                             repro_case=dict(ops=done, mode=case.get("mode"))))
            break
    return dict(violations=viol, stats=dict(operations=nops, examples=len(seqs), scribbles=nscr, examples_with_scribble=with_scr), probes={}, digest=json.dumps([nops, nscr, sorted(map(list, pairs))]),
                classes=[f"{a}>{b}" for a, b in sorted(pairs)], nontrivial=nscr > 0,
                sample=dict(mode=case.get("mode"), seed=case.get("seed"), examples=len(seqs), operations=nops, example_ops=(first or [])[:10]))


def cases(seed, tier):
    sch = Sched(seed)
    n, ex_sm, ex_s = (16, 400, 40) if tier == "quick" else (480, 1500, 120)
    out = []
    for k in range(n):
        out.append(dict(mode="sm", seed=sch.np_seed(f"c17.sm.{k}"), examples=ex_sm, steps=30))
    for k in range(n):
        out.append(dict(mode="sampler", seed=sch.np_seed(f"c17.s.{k}"), examples=ex_s, steps=20))
    return out


def shrink(case):
    ops = case.get("ops")
    if not ops:
        return
    for i in range(len(ops) - 1, -1, -1):
        if ops[i][0] == "s_new":
            continue
        yield dict(case, ops=ops[:i] + ops[i + 1:])
