"""C01 - weighted posterior samples estimate posterior expectations consistently (ensemble engine, statistical oracle)."""
import json
import random

from ..sched import Sched
from . import _ensemble as E

PROP = "C01"
LEVEL = "exploration"
RULE = ("cells = target {interior correlated Gaussian, bimodal 0.3/0.7, exponential at a hard edge, half-Gaussian at a hard edge, von Mises on a periodic coordinate, half-Gaussian on a reflective "
        "coordinate} x kernel x resampler x clustering x fault arm {fault-free, crash->resume, pooled evaluation}; each cell = R independent seeded world runs at N and 4N particles; estimands per run "
        "(standardised by the true posterior scale): means, variances, marginal CDF at 5 points, mode mass; persistent-bias rule: |b_4N|-delta > 6 se_4N AND |b_4N|-0.6|b_N| > 6 se_comb; "
        "evaluations = simulated runs; distinct = cells x particle counts; non-trivial = the run completed and produced estimates")
ASSUMPTIONS = ["statistical oracle (weak fit for this technique): decides persistent bias above the allowances delta = 0.03 sd (means), 3% (variances), 0.01 (CDF/mass), at z=6",
               "truth from closed forms (erf / Bessel) for product-form targets", "posterior() is called with its defaults (trimming on)"]
which = lambda name: not name.startswith("logz")


def cell_list(tier):
    cells = []
    if tier == "quick":
        cells = [
            dict(target="corr", kernel="tpcn", resample="mult", clustering=False),
            dict(target="corr", kernel="rwm", resample="syst", clustering=True),
            dict(target="bimodal", kernel="tpcn", resample="syst", clustering=True),
            dict(target="expedge", kernel="rwm", resample="mult", clustering=False),
            dict(target="halfgauss_hard", kernel="tpcn", resample="mult", clustering=False),
            dict(target="vonmises_periodic", kernel="rwm", resample="syst", clustering=False),
            dict(target="halfgauss_reflective", kernel="tpcn", resample="mult", clustering=False),
            dict(target="gauss", kernel="tpcn", resample="syst", clustering=False, arm="crash_resume"),
            dict(target="gauss", kernel="rwm", resample="mult", clustering=False, arm="pool"),
            dict(target="gauss", kernel="tpcn", resample="mult", clustering=False, vv=0.04),
        ]
    else:
        for tgt in ("corr", "bimodal", "expedge", "halfgauss_hard", "vonmises_periodic", "halfgauss_reflective"):
            for k in ("tpcn", "rwm"):
                for rs in ("mult", "syst"):
                    for cl in (False, True):
                        cells.append(dict(target=tgt, kernel=k, resample=rs, clustering=cl))
        for k in ("tpcn", "rwm"):
            for arm in ("crash_resume", "pool", "vector"):
                cells.append(dict(target="gauss", kernel=k, resample="mult", clustering=False, arm=arm))
                cells.append(dict(target="bimodal", kernel=k, resample="syst", clustering=True, arm=arm))
            cells.append(dict(target="gauss", kernel=k, resample="mult", clustering=False, vv=0.04))
            cells.append(dict(target="corr", kernel=k, resample="syst", clustering=True, vv=0.1))
    return cells


def sizes_R(tier):
    return ((32, 128), 40) if tier == "quick" else ((64, 256), 80)


def cases(seed, tier):
    sch = Sched(seed)
    sizes, R = sizes_R(tier)
    out = []
    for cell in cell_list(tier):
        out += E.cell_cases(cell, sizes, R, sch, "c01")
    return out


def run_case(case):
    if case.get("kind") == "cell":
        import sys

        return E.replay_cell(case, sys.modules[__name__], which, PROP)
    r = E.run_single(case)
    r["sample"] = dict(cell=case["cell"], N=case["N"], estimands={k: round(v, 4) for k, v in (r["est"] or {}).items() if which(k) and "@" not in k})
    r["distinct_key"] = r["cellid"] + f"/N{case['N']}"
    return r


def aggregate(results, cases_):
    v, tables = E.aggregate(results, cases_, which, PROP)
    return v, dict(bias_tables=tables)


def shrink(case):
    return iter(())
