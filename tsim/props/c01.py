"""C01 - weighted posterior samples estimate posterior expectations consistently (ensemble engine, statistical oracle)."""
import json
import random

from ..sched import Sched
from . import _ensemble as E

PROP = "C01"
LEVEL = "exploration"
RULE = ("cells = target {interior correlated Gaussian, bimodal 0.3/0.7, exponential at a hard edge, half-Gaussian at a hard edge, von Mises on a periodic coordinate, half-Gaussian on a reflective "
        "coordinate} x kernel x resampler x clustering x fault arm {fault-free, crash->resume, crash->resume with another particle count, pooled evaluation}; each cell = R independent seeded world runs at N and 4N particles; estimands per run "
        "(standardised by the true posterior scale): means, variances, marginal CDF at 5 points, mode mass; persistent-bias rule: |b_4N|-delta > 6 se_4N AND |b_4N|-0.6|b_N| > 3 se_comb; "
        "plus a stage ensemble of the resampling stage (real Resampler.run on constructed weighted pools: share of each weight bin vs its weight, |z|<=6); "
        "evaluations = simulated runs; distinct = cells x particle counts; non-trivial = the run completed and produced estimates")
ASSUMPTIONS = ["statistical oracle (weak fit for this technique): decides persistent bias above the allowances delta = 0.03 sd (means), 3% (variances), 0.01 (CDF/mass), at z=6",
               "truth from closed forms (erf / Bessel) for product-form targets", "posterior() is called with its defaults (trimming on)"]
which = lambda name: not name.startswith("logz")


def cell_list(tier):
    cells = []
    if tier == "quick":
        cells = [
            dict(target="corr", kernel="tpcn", resample="mult", clustering=False),
            dict(target="corr", kernel="rwm", resample="syst", clustering=True),
            dict(target="bimodal", kernel="tpcn", resample="syst", clustering=True),
            dict(target="expedge", kernel="rwm", resample="mult", clustering=False),
            dict(target="halfgauss_hard", kernel="tpcn", resample="mult", clustering=False),
            dict(target="vonmises_periodic", kernel="rwm", resample="syst", clustering=False),
            dict(target="halfgauss_reflective", kernel="tpcn", resample="mult", clustering=False),
            dict(target="halfgauss_reflective", kernel="rwm", resample="syst", clustering=False),
            dict(target="gauss", kernel="tpcn", resample="syst", clustering=False, arm="crash_resume"),
            dict(target="gauss", kernel="rwm", resample="mult", clustering=False, arm="pool"),
            dict(target="gauss", kernel="rwm", resample="syst", clustering=False, arm="resume_reconfig"),
            dict(target="gauss", kernel="tpcn", resample="mult", clustering=False, vv=0.04),
            dict(target="bimodal_far", kernel="tpcn", resample="mult", clustering=False, n_steps=5),  # one global mode for two narrow far-apart ones: low acceptance, step sizes adapt
            dict(target="corr", kernel="rwm", resample="mult", clustering=False, vv=1.0),  # a lenient volume-variation target: the step is ESS-limited, the other branch of the dynamic mode
        ]
    else:
        for tgt in ("corr", "bimodal", "expedge", "halfgauss_hard", "vonmises_periodic", "halfgauss_reflective"):
            for k in ("tpcn", "rwm"):
                for rs in ("mult", "syst"):
                    for cl in (False, True):
                        cells.append(dict(target=tgt, kernel=k, resample=rs, clustering=cl))
        for k in ("tpcn", "rwm"):
            for arm in ("crash_resume", "pool", "vector", "resume_reconfig"):
                cells.append(dict(target="gauss", kernel=k, resample="mult", clustering=False, arm=arm))
                cells.append(dict(target="bimodal", kernel=k, resample="syst", clustering=True, arm=arm))
            cells.append(dict(target="gauss", kernel=k, resample="syst", clustering=False, arm="resume_reconfig", factor=0.5))
            cells.append(dict(target="bimodal_far", kernel=k, resample="mult", clustering=False, n_steps=5))
            cells.append(dict(target="gauss", kernel=k, resample="mult", clustering=False, vv=0.04))
            cells.append(dict(target="corr", kernel=k, resample="syst", clustering=True, vv=0.1))
            cells.append(dict(target="corr", kernel=k, resample="mult", clustering=False, vv=1.0))
    return cells


def sizes_R(tier):
    return ((32, 128), 40) if tier == "quick" else ((64, 256), 80)


def cases(seed, tier):
    sch = Sched(seed)
    sizes, R = sizes_R(tier)
    out = []
    for cell in cell_list(tier):
        out += E.cell_cases(cell, sizes, R, sch, "c01")
    for k in range(12 if tier == "quick" else 200):
        rr = random.Random(sch.np_seed(f"c01.rs{k}"))
        out.append(dict(kind="resample_stage", seed=sch.np_seed(f"c01.rss{k}") % (2**31), resample=("mult", "syst")[k % 2], M=rr.choice([100, 400, 1000]), n=rr.choice([16, 64, 128]), K=400,
                        width=rr.choice([0.05, 0.15, 0.5])))
    return out


def run_resample_stage(case):
    """Stage ensemble for the resampling stage: the real Resampler.run is called many times on a constructed weighted pool
    under the RNG seam; the expected number of copies of pool particle i is n*w_i (the stage must hand the mutation stage a
    sample of the weighted pool).  Ten weight-ordered bins, z-test with the multinomial variance (an upper bound for
    systematic resampling, so the test is conservative)."""
    import math

    import numpy as np

    from .. import seams
    from tempest.state_manager import StateManager
    from tempest.steps.resample import Resampler

    r = np.random.RandomState(case["seed"] % (2**31))
    M, n, K, d = case["M"], case["n"], case["K"], 2
    st = StateManager(d)
    u = r.random_sample((M, d))
    logl = -0.5 * ((u[:, 0] - 0.3) / case["width"]) ** 2
    st.update_current(dict(u=u, x=u.copy(), logl=logl, beta=0.0, logz=0.0, iter=1, calls=M, ess=float(M), steps=1, acceptance=1.0, efficiency=1.0))
    st.commit_current_to_history()
    st.set_current("beta", 0.5)
    w = np.exp(0.5 * (logl - logl.max()))
    w /= w.sum()
    rs = Resampler(state=st, n_particles=n, resample=case["resample"], clusterer=None, clustering=False, have_blobs=False)
    counts = np.zeros(M)
    run = seams.RngRun(case["seed"] % (2**31) + 1, record=0)
    with seams.active(run):
        for _ in range(K):
            rs.run(w.copy())
            cur = st._current["u"]
            # map resampled rows back to pool indices (rows are exact copies)
            idx = np.searchsorted(np.sort(u[:, 0]), cur[:, 0])
            order = np.argsort(u[:, 0])
            np.add.at(counts, order[np.clip(idx, 0, M - 1)], 1)
    tot = n * K
    order = np.argsort(w)
    bins = np.array_split(order, 10)
    zmax, worst = 0.0, None
    for b, ix in enumerate(bins):
        p = float(w[ix].sum())
        obs = float(counts[ix].sum())
        z = (obs - tot * p) / math.sqrt(tot * p * (1 - p) + 1e-300)
        if abs(z) > abs(zmax):
            zmax, worst = z, (b, round(p, 4), round(obs / tot, 4))
    viol = []
    if abs(zmax) > 6.0:
        viol.append(dict(property=PROP, oracle="resample_stage.biased", detail=f"resampler '{case['resample']}': after {K} calls on a pool of {M} weighted particles the share of weight-bin {worst[0]} in the resampled sets is {worst[2]} "
                         f"but the bin carries weight {worst[1]} (z={zmax:+.1f}): the resampling stage does not reproduce the weighted pool", keys=dict(resample=case["resample"])))
    return dict(violations=viol, stats=dict(resample_stage_calls=K), probes={}, digest=json.dumps([round(zmax, 6)]), distinct_key=f"resample_stage/{case['resample']}/M{M}/n{n}/w{case['width']}", nontrivial=True,
                sample=dict(kind="resample stage ensemble", resample=case["resample"], M=M, n=n, calls=K, max_abs_z=round(abs(zmax), 2)))


def run_case(case):
    if case.get("kind") == "resample_stage":
        return run_resample_stage(case)
    if case.get("kind") == "cell":
        import sys

        return E.replay_cell(case, sys.modules[__name__], which, PROP)
    r = E.run_single(case)
    r["sample"] = dict(cell=case["cell"], N=case["N"], estimands={k: round(v, 4) for k, v in (r["est"] or {}).items() if which(k) and "@" not in k})
    r["distinct_key"] = r["cellid"] + f"/N{case['N']}"
    return r


def aggregate(results, cases_):
    v, tables = E.aggregate(results, cases_, which, PROP)
    return v, dict(bias_tables=tables)


def shrink(case):
    return iter(())
