"""C07 - every stored or returned particle is a coherent (u, x, logL, blob) record."""
import random

from ..monitors import CoherenceMon
from ..sched import Sched
from . import _worldprop as wp

PROP = "C07"
LEVEL = "exploration"
RULE = ("seeded sampler executions over kernel x resampler x clustering x {scalar,vectorised,pool} x blobs x boundary types x metric mode, with zero-likelihood "
        "regions, crash->resume, reconfigured resume, re-run, a likelihood that raises at batch k and a pool worker that dies at map k; after every pipeline stage, "
        "every MCMC step, every commit, every load and on everything returned (sample(), posterior(...)) every row is recomputed exactly: x==T(u), logL==L(x), "
        "blob==B(x), u in [0,1], no -inf stored; distinct = configuration/scenario class; non-trivial = at least 3 iterations")
ASSUMPTIONS = ["observation points are step boundaries (no asynchronous interrupts inside a statement)", "targets are simulator-owned, deterministic and pointwise bit-identical across evaluation modes"]


def cases(seed, tier):
    sch = Sched(seed)
    n = 520 if tier == "quick" else 25000
    out = []
    for k in range(n):
        r = random.Random(sch.np_seed(f"c07.{k}"))
        c = wp.std_case(r, sch.np_seed(f"s{k}"), kinds=("gauss", "bimodal", "expedge", "hole", "halfgauss", "vonmises", "corr"),
                        scenarios=("plain", "plain", "crash_resume", "rerun", "like_raise", "pool_death", "load_only", "extra_samples", "rewind"), boundaries=True)
        if r.random() < 0.12:
            c["rng_extreme"] = dict(rate=0.02, seed=r.randrange(100000))  # own arm: legal extreme uniform draws (0.0 / 1-2^-53)
        if c["target"]["kind"] == "hole":
            c["cfg"]["n_particles"] = max(c["cfg"]["n_particles"], 24)
        out.append(c)
    return out


def run_case(case):
    mon = CoherenceMon(PROP)
    out, w, info = wp.run_with(case, [mon])
    out["stats"].update(rows_checked=mon.rows)
    out["sample"] = dict(cfg_class=out["distinct_key"], rows_checked=mon.rows, scenario=info["kind"], exc=info.get("exc"))
    return out


shrink = wp.generic_shrink
