"""C14 - cluster labels and proposal modes stay coherent for every history and cadence."""
import random

from ..monitors import ModesMon
from ..sched import Sched
from . import _worldprop as wp

PROP = "C14"
LEVEL = "exploration"
RULE = ("seeded sampler executions on multimodal targets with unequal masses x cluster_every {1,2,3,5,7} x n_max_clusters {None,1,2,3} x normalize x split_threshold x small N / large "
        "ess_ratio, with crash->resume; at the mutate seam the arguments the kernel receives are joined with what the training stage fitted: labels in [0,K), finite means, SPD scale, "
        "dof>0, statistics fitted in this iteration, and mode a fitted from exactly the training points labelled a; distinct = configuration class; non-trivial = K>=2 reached")
ASSUMPTIONS = ["the rank-vs-label clause is judged whenever it is reached; reach is reported by the probes modes.label_missing_from_training_set / modes.rank_ne_label"]


def cases(seed, tier):
    sch = Sched(seed)
    n = 360 if tier == "quick" else 30000
    out = []
    for k in range(n):
        r = random.Random(sch.np_seed(f"c14.{k}"))
        c = wp.std_case(r, sch.np_seed(f"s{k}"), kinds=("bimodal", "bimodal", "gauss"), scenarios=("plain", "plain", "crash_resume", "like_raise", "rewind"), blobs=(0,), evals=("scalar", "vector"),
                        clustering=True, cluster_every=(1, 2, 3, 5, 7), n_max_clusters=(None, None, 1, 2, 3), vv=False, d=r.choice([1, 2, 2, 3]))
        c["cfg"]["n_particles"] = r.choice([16, 24, 32, 64, 96, 128])
        c["cfg"]["ess_ratio"] = r.choice([1.0, 2.0, 4.0])
        if r.random() < 0.4:
            # "vanishing cluster" family: a broad minor mode that carries weight at low beta and dies out later, with a clustering
            # cadence > 1, so that a clusterer fitted earlier is re-used on a pool in which one of its clusters has no training point
            d = r.choice([2, 3, 3])
            w1 = r.choice([0.02, 0.02, 0.05])
            s1, s2 = r.choice([0.02, 0.05]), r.choice([0.1, 0.2])
            c["target"] = dict(d=d, lo=[-1.0] * d, hi=[1.0] * d, kind="bimodal", comps=[dict(w=w1, factors=[["gauss", -0.5, s2]] + [["gauss", 0.0, s2]] * (d - 1)),
                                                                                       dict(w=1 - w1, factors=[["gauss", 0.4, s1]] + [["gauss", 0.1, s1]] * (d - 1))])
            c["cfg"].update(n_particles=r.choice([64, 128, 128]), cluster_every=r.choice([2, 3, 5, 7, 10]), split_threshold=0.5, n_max_clusters=r.choice([None, None, 3]))
            c["cfg"].pop("n_steps", None)
            c["cfg"].pop("n_max_steps", None)
            c["n_total"] = r.choice([128, 256])
            c["eval"] = "vector"
            c.pop("pool", None)
            c["family"] = "vanishing"
        elif r.random() < 0.2:
            # three modes, two of them broad and light: they die out at different temperatures, so that - with a clustering cadence > 1 - a clusterer with
            # three or more clusters is re-used on a pool in which a cluster that is neither the first nor the last has no training point left
            d = r.choice([2, 2, 3])
            wa, wb = r.choice([(0.01, 0.04), (0.04, 0.01), (0.02, 0.02)])
            s1, s2 = r.choice([0.02, 0.04]), r.choice([0.08, 0.12])
            pos = r.sample([-0.65, 0.0, 0.6], 3)
            c["target"] = dict(d=d, lo=[-1.0] * d, hi=[1.0] * d, kind="bimodal", comps=[dict(w=wa, factors=[["gauss", pos[0], s2]] + [["gauss", -0.3, s2]] * (d - 1)),
                                                                                       dict(w=wb, factors=[["gauss", pos[1], s2]] + [["gauss", 0.3, s2]] * (d - 1)),
                                                                                       dict(w=1 - wa - wb, factors=[["gauss", pos[2], s1]] + [["gauss", 0.0, s1]] * (d - 1))])
            c["cfg"].update(n_particles=r.choice([128, 192]), cluster_every=r.choice([2, 3, 5, 7]), split_threshold=r.choice([0.5, 1.0]), n_max_clusters=r.choice([None, None, 4]))
            c["cfg"].pop("n_steps", None)
            c["cfg"].pop("n_max_steps", None)
            c["n_total"] = r.choice([256, 384])
            c["eval"] = "vector"
            c.pop("pool", None)
            c["target"].pop("vec_out", None)
            c["scenario"] = "plain"
            for k2 in ("like_fault", "save_every", "reconfig", "resume_n_total", "after_exc", "n_total2", "rewind_to"):
                c.pop(k2, None)
            c["family"] = "vanishing3"
        elif r.random() < 0.15:
            # very narrow likelihood: the first annealing temperatures are tiny (1e-5..1e-3), where "is this still the warm-up?" tests
            # that are not exact comparisons with 0 go wrong
            from .. import targets as T

            d = r.choice([1, 2])
            c["target"] = dict(T.spec_gauss(d=d, mu=round(r.uniform(-0.3, 0.3), 3), sig=r.choice([0.002, 0.0007, 0.005])), kind="gauss")
            c["cfg"].update(n_particles=r.choice([16, 32]), clustering=r.random() < 0.7)
            c["cfg"].pop("periodic", None)
            c["cfg"].pop("reflective", None)
            c["n_total"] = 64
            c["scenario"] = "plain"
            for k2 in ("like_fault", "save_every", "reconfig", "resume_n_total", "after_exc", "n_total2"):
                c.pop(k2, None)
            c["family"] = "narrow"
        out.append(c)
    return out


def run_case(case):
    mon = ModesMon(PROP)
    out, w, info = wp.run_with(case, [mon])
    out["stats"].update(mutation_stages=mon.stages, stages_K_ge_2=mon.k_ge2)
    out["nontrivial"] = mon.k_ge2 > 0
    if info.get("exc") and info.get("exc_type") not in (None,):
        # an exception escaping the train/resample/mutate stages because of an unfitted or inconsistent clusterer is this property's failure
        site = info.get("exc_site", "?")
        if any(s in site for s in ("cluster.py", "train.py", "resample.py", "modes.py", "mcmc.py")) and info.get("exc_type") in ("ValueError", "IndexError", "AttributeError", "TypeError"):
            out["violations"].append(dict(property=PROP, oracle="stage.raises", detail=f"{info['exc']} at {site} (cluster_every={case['cfg'].get('cluster_every')})",
                                          keys=dict(exc=info["exc_type"], site=site.split(":")[0], cadence_gt1=case["cfg"].get("cluster_every", 1) > 1)))
    out["sample"] = dict(cfg_class=out["distinct_key"], cluster_every=case["cfg"].get("cluster_every"), n_max_clusters=case["cfg"].get("n_max_clusters"), stages=mon.stages, K_ge_2=mon.k_ge2)
    return out


shrink = wp.generic_shrink
