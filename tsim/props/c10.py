"""C10 - rescaling the likelihood shifts log-evidence only (paired replay under the RNG seam)."""
import copy
import hashlib
import json
import random

import numpy as np

from .. import scenario
from ..sched import Sched
from ..world import Monitor
from . import _worldprop as wp

PROP = "C10"
LEVEL = "exploration"
RULE = ("paired replay: the same seeded execution with log-likelihood L and L+c (c = +-2^k, |c|<=1024, and seeded reals) sees the same random stream through the RNG seam; "
        "the number and call sites of draws must be identical, the beta sequence, particles (1e-8), normalised weights and ESS equal to rounding, every recorded logZ_t shifted by beta_t*c and the "
        "final one by c; a diverging pair is re-run with three nearby shifts and only a divergence that reproduces for all of them is a violation (rounding forks are counted, not judged); "
        "distinct = configuration class x sign/magnitude bucket of c; non-trivial = at least 3 annealing iterations")
ASSUMPTIONS = ["a rounding-level difference can flip a discrete decision only with probability <1e-9 per run; such forks do not reproduce under nearby shifts"]


class RecMon(Monitor):
    def __init__(self):
        self.it = []
        self.w = None

    def after_reweight(self, inc, weights):
        self.w = np.asarray(weights, dtype=float).copy()

    def after_commit(self, inc):
        st = inc.samplers[-1].state
        c = st._current
        self.it.append(dict(beta=float(c["beta"]), logz=float(st._history["logz"][-1]), ess=float(c["ess"]), u=np.asarray(c["u"], dtype=float).copy(),
                            logl=np.asarray(c["logl"], dtype=float).copy(), w=self.w, calls=int(c["calls"])))


def run(case, shift):
    c = copy.deepcopy(case)
    c["target"]["shift"] = shift
    m = RecMon()
    w, info = scenario.execute(c, [m])
    s = info.get("sampler")
    ev = float(s.evidence()[0]) if (s is not None and info["completed"]) else None
    return dict(it=m.it, rng=[r.digest() for r in w.rng_runs], rng_n=[r.n for r in w.rng_runs], ev=ev, info=info, w=w)


def compare(A, B, c):
    tolc = 1e-7 * max(1.0, abs(c))
    if A["info"].get("exc") != B["info"].get("exc"):
        return "completion", f"L run ended with {A['info'].get('exc')}, L+c run with {B['info'].get('exc')}"
    if len(A["it"]) != len(B["it"]):
        return "iterations", f"{len(A['it'])} iterations with L, {len(B['it'])} with L+c"
    for t, (a, b) in enumerate(zip(A["it"], B["it"])):
        if abs(a["beta"] - b["beta"]) > 1e-9:
            return "beta", f"iteration {t + 1}: beta {a['beta']!r} vs {b['beta']!r}"
        if a["u"].shape != b["u"].shape or float(np.max(np.abs(a["u"] - b["u"]))) > 1e-8:
            return "particles", f"iteration {t + 1}: particles differ by up to {float(np.max(np.abs(a['u'] - b['u']))) if a['u'].shape == b['u'].shape else 'shape'}"
        if np.any(np.abs((b["logl"] - c) - a["logl"])[np.isfinite(a["logl"])] > tolc):
            return "logl", f"iteration {t + 1}: stored logL does not differ by c"
        if abs(a["ess"] - b["ess"]) > 1e-8 * max(1.0, abs(a["ess"])) + 1e-6 * (abs(c) > 100):
            return "ess", f"iteration {t + 1}: ESS {a['ess']!r} vs {b['ess']!r}"
        if a["w"] is not None and b["w"] is not None and (a["w"].shape != b["w"].shape or float(np.max(np.abs(a["w"] - b["w"]))) > 1e-8 * float(np.max(a["w"])) + 1e-13):
            return "weights", f"iteration {t + 1}: normalised weights differ by {float(np.max(np.abs(a['w'] - b['w']))):.3e}"
        if abs((b["logz"] - a["logz"]) - a["beta"] * c) > tolc:
            return "logz_shift", f"iteration {t + 1}: logZ shifted by {b['logz'] - a['logz']!r}, expected beta*c={a['beta'] * c!r}"
        if a["calls"] != b["calls"]:
            return "calls", f"iteration {t + 1}: calls {a['calls']} vs {b['calls']}"
    if A["rng_n"] != B["rng_n"]:
        return "rng", f"different numbers of draws from the random stream ({A['rng_n']} vs {B['rng_n']})"
    if A["ev"] is not None and B["ev"] is not None and abs((B["ev"] - A["ev"]) - c) > tolc:
        return "evidence_shift", f"final evidence shifted by {B['ev'] - A['ev']!r}, expected c={c!r}"
    return None


def run_case(case):
    c = case["c"]
    A = run(case, 0.0)
    B = run(case, c)
    violations, stats, probes = [], {}, {}
    stats["iterations"] = len(A["it"])
    d = compare(A, B, c)
    if d is not None:
        repro = 0
        for k in (1, 2, 3):
            ck = c * (1.0 + k * 2.0 ** -20)
            if compare(A, run(case, ck), ck) is not None:
                repro += 1
        if repro == 3:
            violations.append(dict(property=PROP, oracle="shift." + d[0], detail=f"c={c!r}: {d[1]} (reproduced for 3 nearby shifts)", keys=dict(what=d[0], kernel=case["cfg"].get("sample"), clustering=bool(case["cfg"].get("clustering")), mode="vv" if case["cfg"].get("volume_variation") else "ess")))
        else:
            probes["rounding_fork_not_judged"] = 1
    for w in (A["w"], B["w"]):
        violations += []
    bucket = ("neg" if c < 0 else "pos") + ("_big" if abs(c) >= 64 else "_small")
    return dict(violations=violations, stats=stats, probes=probes, digest=json.dumps([A["rng"], A["ev"]]), distinct_key=scenario.cfg_class(case) + "/" + bucket,
                nontrivial=len([x for x in A["it"] if x["beta"] > 0]) >= 3,
                sample=dict(cfg_class=scenario.cfg_class(case), c=c, iterations=len(A["it"]), ev_L=A["ev"], ev_Lc=B["ev"]))


def cases(seed, tier):
    sch = Sched(seed)
    n = 200 if tier == "quick" else 15000
    out = []
    for k in range(n):
        r = random.Random(sch.np_seed(f"c10.{k}"))
        c = wp.std_case(r, sch.np_seed(f"s{k}"), kinds=("gauss", "bimodal", "expedge", "hole", "corr"), scenarios=("plain", "plain", "plain", "crash_resume"), evals=("scalar", "vector"), blobs=(0,), boundaries=True)
        c["c"] = r.choice([s * 2.0 ** e for s in (-1, 1) for e in range(-3, 11)] + [round(r.uniform(-1000, 1000), 3), round(r.uniform(-10, 10), 6)])
        out.append(c)
    return out


def shrink(case):
    for c in wp.generic_shrink(case):
        yield c
    if abs(case["c"]) > 1:
        yield dict(case, c=1.0 if case["c"] > 0 else -1.0)
