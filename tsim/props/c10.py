"""C10 - rescaling the likelihood shifts log-evidence only (paired replay under the RNG seam)."""
import copy
import re
import hashlib
import json
import random

import numpy as np

from .. import scenario
from ..sched import Sched
from ..world import Monitor
from . import _worldprop as wp

PROP = "C10"
LEVEL = "exploration"
RULE = ("paired replay: the same seeded execution with log-likelihood L and L+c (c = +-2^k, |c|<=1024, and seeded reals) sees the same random stream through the RNG seam; "
        "the number and call sites of draws must be identical, the beta sequence, particles (1e-8), normalised weights and ESS equal to rounding, every recorded logZ_t shifted by beta_t*c and the "
        "final one by c; a diverging pair is a violation only if it reproduces for three nearby shifts AND none of twelve rounding-level twins (shifts 2^-38..2^-43) leaves the unshifted "
        "trajectory (executions whose discrete decisions flip under rounding noise alone are counted as rounding forks, not judged); "
        "distinct = configuration class x sign/magnitude bucket of c; non-trivial = at least 3 annealing iterations")
ASSUMPTIONS = ["an execution is a rounding fork iff a shift of 2^-38..2^-43 (analytic effect <= 4e-12) or an unshifted twin whose log-likelihood values carry noise of amplitude ulp(c)/2 (what adding c does to them) already changes its trajectory; measured: about 0.1% of executions, mostly percentile-threshold ties in weight trimming and the rank test of numerically singular covariances in the volume-variation metric"]


class RecMon(Monitor):
    def __init__(self):
        self.it = []
        self.w = None

    def after_reweight(self, inc, weights):
        self.w = np.asarray(weights, dtype=float).copy()

    def after_commit(self, inc):
        st = inc.samplers[-1].state
        c = st._current
        self.it.append(dict(beta=float(c["beta"]), logz=float(st._history["logz"][-1]), ess=float(c["ess"]), u=np.asarray(c["u"], dtype=float).copy(),
                            logl=np.asarray(c["logl"], dtype=float).copy(), w=self.w, calls=int(c["calls"]), hlen=len(st._history["beta"])))


def run_con(case, shift):
    """Constructed checkpoint (tsim/constructed.py) for the likelihood L+shift - stored logL + shift, stored logZ_t + beta_t*shift - resumed by a real run
    on a target shifted by the same constant.  Its last temperature step lands at a chosen beta*, mostly inside the termination window (1-1e-4, 1)."""
    from .. import constructed, targets as T
    from ..world import World, forget

    N = case["N"]
    built = constructed.build(case, shift=shift, n_total=N)
    if built is None:
        return None
    blob, hist, target = built
    m = RecMon()
    cfg = dict(n_particles=N, ess_ratio=case["ess_ratio"], clustering=False, sample=case.get("kernel", "tpcn"), random_state=case["seed"] % 1000)
    tg = dict(T.spec_gauss(d=case["d"], lo=0.0, hi=1.0, mu=0.5, sig=0.2), kind="gauss", shift=shift)
    if case.get("noise"):
        tg["noise"] = case["noise"]
    w = World(dict(seed=case["seed"], target=tg, cfg=cfg), monitors=[m])
    info = dict(exc=None, completed=False)
    s = None
    with w.incarnation() as inc:
        path = constructed.write(w, blob)
        s = inc.new_sampler()
        try:
            s.run(n_total=N, resume_state_path=path, progress=False)
            info["completed"] = True
        except Exception as e:
            info["exc"] = f"{type(e).__name__}: {str(e)[:120]}"
            forget(e)
    if w.escapes:
        raise RuntimeError("; ".join(w.escapes))
    ev = float(s.evidence()[0]) if info["completed"] else None
    return dict(it=m.it, rng=[r.digest() for r in w.rng_runs], rng_n=[r.n for r in w.rng_runs], ev=ev, info=info, w=w, state=s.state)


def run(case, shift):
    if case.get("constructed"):
        return run_con(case, shift)
    c = copy.deepcopy(case)
    c["target"]["shift"] = shift
    m = RecMon()
    w, info = scenario.execute(c, [m])
    s = info.get("sampler")
    ev = float(s.evidence()[0]) if (s is not None and info["completed"]) else None
    return dict(it=m.it, rng=[r.digest() for r in w.rng_runs], rng_n=[r.n for r in w.rng_runs], ev=ev, info=info, w=w, state=None if s is None else s.state)


def compare(A, B, c):
    tolc = 1e-7 * max(1.0, abs(c))
    if A["info"].get("exc") != B["info"].get("exc"):
        return "completion", f"L run ended with {A['info'].get('exc')}, L+c run with {B['info'].get('exc')}"
    for t, (a, b) in enumerate(zip(A["it"], B["it"])):
        if abs(a["beta"] - b["beta"]) > 1e-9:
            return "beta", f"iteration {t + 1}: beta {a['beta']!r} vs {b['beta']!r}"
        if a["u"].shape != b["u"].shape or float(np.max(np.abs(a["u"] - b["u"]))) > 1e-8:
            return "particles", f"iteration {t + 1}: particles differ by up to {float(np.max(np.abs(a['u'] - b['u']))) if a['u'].shape == b['u'].shape else 'shape'}"
        if np.any(np.abs((b["logl"] - c) - a["logl"])[np.isfinite(a["logl"])] > tolc):
            return "logl", f"iteration {t + 1}: stored logL does not differ by c"
        if abs(a["ess"] - b["ess"]) > 1e-8 * max(1.0, abs(a["ess"])) + 1e-6 * (abs(c) > 100):
            return "ess", f"iteration {t + 1}: ESS {a['ess']!r} vs {b['ess']!r}"
        if a["w"] is not None and b["w"] is not None and (a["w"].shape != b["w"].shape or float(np.max(np.abs(a["w"] - b["w"]))) > 1e-8 * float(np.max(a["w"])) + 1e-13):
            return "weights", f"iteration {t + 1}: normalised weights differ by {float(np.max(np.abs(a['w'] - b['w']))):.3e}"
        if abs((b["logz"] - a["logz"]) - a["beta"] * c) > tolc:
            return "logz_shift", f"iteration {t + 1}: logZ shifted by {b['logz'] - a['logz']!r}, expected beta*c={a['beta'] * c!r}"
        if a["calls"] != b["calls"]:
            return "calls", f"iteration {t + 1}: calls {a['calls']} vs {b['calls']}"
    if len(A["it"]) != len(B["it"]):
        return "iterations", f"{len(A['it'])} iterations with L, {len(B['it'])} with L+c"
    if A["rng_n"] != B["rng_n"]:
        return "rng", f"different numbers of draws from the random stream ({A['rng_n']} vs {B['rng_n']})"
    if A["ev"] is not None and B["ev"] is not None and abs((B["ev"] - A["ev"]) - c) > tolc:
        return "evidence_shift", f"final evidence shifted by {B['ev'] - A['ev']!r}, expected c={c!r}"
    return None


def knife_edge(A, B, d, case):
    """Does the first difference sit on a discrete decision whose margin in the unshifted execution is at rounding level?
    Evaluated on A's own data with the library's own decision functions under multiplicative noise of 1e-13:
      termination (ESS over the history vs n_total, 1-beta vs 1e-4), stay/advance (ESS at beta_prev vs the target),
      weight trimming for training (which particles pass the percentile threshold), the volume-variation metric.
    Returns the name of the knife-edge or None."""
    from .. import refmis, seams
    from tempest import tools

    st = A.get("state")
    if st is None or d[0] not in ("particles", "beta", "iterations"):
        return None
    m = re.search(r"iteration (\d+)", d[1])
    t = int(m.group(1)) - 1 if m else min(len(A["it"]), len(B["it"]))
    h = st._history
    # position in the stored history (after a crash and resume the list of observed iterations is longer than the history: iterations
    # run after the last checkpoint were lost and run again)
    t = min(A["it"][t]["hlen"] - 1, len(h["beta"])) if t < len(A["it"]) else len(h["beta"])
    pool = [(float(h["beta"][k]), float(h["logz"][k]), np.asarray(h["logl"][k], dtype=float)) for k in range(min(t, len(h["beta"])))]
    cfg = case["cfg"]
    N = cfg.get("n_particles")
    target = cfg.get("ess_ratio", 2.0) * N
    rs = seams._ORIG["RandomState"](case["seed"] % (2**31))
    if not pool:
        return None
    if d[0] == "iterations":
        full = [(float(h["beta"][k]), float(h["logz"][k]), np.asarray(h["logl"][k], dtype=float)) for k in range(t)]
        ess = refmis.ess_from_logw(refmis.mis(full, 1.0)[0])
        if abs(ess - case["n_total"]) <= 1e-9 * case["n_total"]:
            return "termination: ESS over the history equals n_total to rounding"
        if t >= 1 and abs((1.0 - float(h["beta"][t - 1])) - 1e-4) <= 1e-12:
            return "termination: 1-beta equals 1e-4 to rounding"
    bprev = pool[-1][0]
    ess_prev = refmis.ess_from_logw(refmis.mis(pool, bprev)[0])
    if d[0] in ("beta", "particles") and abs(ess_prev - target) <= 1e-9 * target:
        return "schedule: ESS at beta_prev equals the target to rounding"
    cand = [e for e in A["it"] if e["hlen"] - 1 == t]
    w = cand[-1]["w"] if cand else None
    if w is not None and len(w) == sum(len(b[2]) for b in pool):
        sizes = set()
        metric = []
        u = np.concatenate([np.asarray(h["u"][k]) for k in range(len(pool))])
        for _ in range(16):
            wn = w * (1.0 + 1e-13 * rs.standard_normal(len(w)))
            wn = wn / wn.sum()
            idx, _w = tools.trim_weights(np.arange(len(wn)), wn.copy(), ess=0.99, bins=1000)
            sizes.add(len(idx))
            if cfg.get("volume_variation") is not None:
                metric.append(float(tools.volume_variation(u, wn)))
        idx0, _w0 = tools.trim_weights(np.arange(len(w)), (w / w.sum()).copy(), ess=0.99, bins=1000)
        wn0 = w / w.sum()
        thr = float(np.min(wn0[idx0]))
        if int(np.sum(np.abs(wn0 - thr) <= 1e-9 * thr)) >= 2:
            return "training: several weights tie with the trimming threshold to rounding (copies of one particle); whether the tie is exact decides who passes"
        if len(sizes) > 1:
            return "training: the trimmed set changes under 1e-13 noise on the weights (percentile threshold sits on a weight)"
        if metric and (max(metric) - min(metric)) > 1e-6 * max(1.0, abs(max(metric))):
            return "volume-variation metric changes macroscopically under 1e-13 noise (numerically singular covariance)"
    return None


def run_case(case):
    c = case["c"]
    A = run(case, 0.0)
    if A is None:
        return dict(violations=[], stats=dict(constructed_unsuitable=1), probes={}, digest="unsuitable", distinct_key=None, nontrivial=False)
    if case.get("constructed"):
        case = dict(case, cfg=dict(sample=case.get("kernel"), clustering=False, n_particles=case["N"], ess_ratio=case["ess_ratio"]), n_total=case["N"], target=dict(kind="constructed", d=case["d"]), eval="scalar", scenario="constructed")
    B = run(case, c)
    violations, stats, probes = [], {}, {}
    stats["iterations"] = len(A["it"])
    d = compare(A, B, c)
    if d is not None:
        repro = 0
        for k in (1, 2, 3):
            ck = c * (1.0 + k * 2.0 ** -20)
            if compare(A, run(case, ck), ck) is not None:
                repro += 1
        # Is the *unshifted* execution itself sitting on a rounding knife-edge?  Twelve twins with shifts of 2^-38..2^-43 are the
        # same problem up to rounding (their analytic effect, <= 4e-12, is far below every tolerance); if any of them leaves the
        # trajectory of A as well, discrete decisions of this execution (a percentile threshold hitting a weight, the rank test of a
        # numerically singular covariance, an accept test) flip under rounding noise alone and the pair is not judged.
        fork = 0
        if repro == 3:
            for k in range(12):
                ce = (1.0 if k % 2 == 0 else -1.0) * 2.0 ** -(38 + k // 2)
                if compare(A, run(case, ce), ce) is not None:
                    fork += 1
                    break
        # Rounding-noise twins at the amplitude of this very shift: adding c rounds every L to a multiple of ulp(c), i.e. perturbs it by up to
        # ulp(c)/2 ~ 2^-53 |c|.  Six unshifted executions whose log-likelihood values carry a fixed pseudo-random perturbation of that amplitude
        # (hash of the point) are the same problem up to exactly that rounding; if any of them leaves A's trajectory, what B shows is
        # amplification of rounding noise by a discrete decision (e.g. the iteration count of an EM fit), not a dependence on c.
        if repro == 3 and fork == 0 and abs(c) > 1.0:
            for k in range(6):
                cn = copy.deepcopy(case)
                if cn.get("constructed"):
                    cn["noise"] = dict(amp=2.0 ** -53 * abs(c), seed=k)
                else:
                    cn["target"]["noise"] = dict(amp=2.0 ** -53 * abs(c), seed=k)
                if compare(A, run(cn, 0.0), 0.0) is not None:
                    fork += 1
                    probes["noise_twin_fork"] = 1
                    break
        edge = knife_edge(A, B, d, case) if (repro == 3 and fork == 0) else None
        if edge is not None:
            probes["knife_edge_not_judged"] = 1
            probes.setdefault("knife_edges", []).append(edge.split(":")[0])
        if repro == 3 and fork == 0 and edge is None:
            violations.append(dict(property=PROP, oracle="shift." + d[0], detail=f"c={c!r}: {d[1]} (reproduced for 3 nearby shifts)", keys=dict(what=d[0], kernel=case["cfg"].get("sample"), clustering=bool(case["cfg"].get("clustering")), mode="vv" if case["cfg"].get("volume_variation") else "ess")))
        else:
            probes["rounding_fork_not_judged"] = 1
    for w in (A["w"], B["w"]):
        violations += []
    bucket = ("neg" if c < 0 else "pos") + ("_big" if abs(c) >= 64 else "_small")
    return dict(violations=violations, stats=stats, probes=probes, digest=json.dumps([A["rng"], A["ev"]]), distinct_key=scenario.cfg_class(case) + "/" + bucket,
                nontrivial=len([x for x in A["it"] if x["beta"] > 0]) >= 3,
                sample=dict(cfg_class=scenario.cfg_class(case), c=c, iterations=len(A["it"]), ev_L=A["ev"], ev_Lc=B["ev"]))


def cases(seed, tier):
    sch = Sched(seed)
    n = 200 if tier == "quick" else 15000
    out = []
    for k in range(n):
        r = random.Random(sch.np_seed(f"c10.{k}"))
        c = wp.std_case(r, sch.np_seed(f"s{k}"), kinds=("gauss", "bimodal", "expedge", "hole", "corr"), scenarios=("plain", "plain", "plain", "crash_resume"), evals=("scalar", "vector"), blobs=(0,), boundaries=True)
        c["c"] = r.choice([s * 2.0 ** e for s in (-1, 1) for e in range(-3, 11)] + [round(r.uniform(-1000, 1000), 3), round(r.uniform(-10, 10), 6)])
        out.append(c)
    for k in range(n // 5):
        r = random.Random(sch.np_seed(f"c10.con{k}"))
        star = r.choice([1 - 3e-5, 1 - 5e-5, 1 - 2e-5, 1 - 9e-5, 1 - 7e-5, 1 - 2e-4, 0.999, r.uniform(0.5, 0.99)])
        ratio = r.choice([1.0, 1.0, 2.0])
        out.append(dict(constructed=True, seed=sch.np_seed(f"con{k}") % (2**31), d=r.choice([1, 2]), N=r.choice([16, 32, 64]), ess_ratio=ratio, T=int(ratio) + r.choice([1, 2, 3]),
                        spread=r.choice([1.0, 3.0, 10.0]), beta_star=star, kernel=r.choice(["tpcn", "rwm"]),
                        c=r.choice([s * 2.0 ** e for s in (-1, 1) for e in range(0, 11)] + [round(r.uniform(-1000, 1000), 3)])))
    return out


def shrink(case):
    if case.get("constructed"):
        if case["T"] > 1:
            yield dict(case, T=1)
        if abs(case["c"]) > 1:
            yield dict(case, c=1.0 if case["c"] > 0 else -1.0)
        return
    for c in wp.generic_shrink(case):
        yield c
    if abs(case["c"]) > 1:
        yield dict(case, c=1.0 if case["c"] > 0 else -1.0)
