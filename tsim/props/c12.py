"""C12 - run() postconditions and the posterior()/evidence() contract."""
import random

from ..monitors import PosteriorMon
from ..sched import Sched
from . import _worldprop as wp

PROP = "C12"
LEVEL = "exploration"
RULE = ("seeded sampler executions (incl. crash->resume and re-run); at the end of every completed run: beta, ESS>=n_total and evidence()==RefMIS logZ(1) exactly, then all 2^4 "
        "combinations of posterior(resample, trim_importance_weights, return_blobs, return_logw) x ess_trim {0.5,0.9,0.99,0.999} x bins_trim {10,100,1000}: weights, equal lengths, "
        "row-by-row identity (logL==L(x), blob==B(x), logw == reference log-weight of that row); plus constructed checkpoints resumed by a real run whose last step lands inside the termination window (the run ends with beta < 1); distinct = configuration/scenario class; non-trivial = run completed")
ASSUMPTIONS = ["RefMIS is the oracle for evidence and per-row log-weights"]


def cases(seed, tier):
    sch = Sched(seed)
    n = 240 if tier == "quick" else 8000
    out = []
    for k in range(n):
        r = random.Random(sch.np_seed(f"c12.{k}"))
        c = wp.std_case(r, sch.np_seed(f"s{k}"), kinds=("gauss", "bimodal", "expedge", "hole", "corr"), scenarios=("plain", "plain", "crash_resume", "rerun", "resume_final", "load_only", "extra_samples", "like_raise", "rewind"))
        out.append(c)
    # constructed checkpoints (tsim/constructed.py): a real resumed run whose last temperature step lands at a chosen beta*, mostly inside the
    # termination window (1-1e-4, 1): the run may then stop with beta < 1, and evidence() must still be the evidence at beta = 1
    for k in range(n // 6):
        r = random.Random(sch.np_seed(f"c12.con{k}"))
        star = r.choice([1 - 3e-5, 1 - 5e-5, 1 - 2e-5, 1 - 9e-5, 1 - 7e-5, 1 - 2e-4, 0.999, r.uniform(0.5, 0.99)])
        ratio = r.choice([1.0, 1.0, 2.0])
        out.append(dict(constructed=True, seed=sch.np_seed(f"con{k}") % (2**31), d=r.choice([1, 2]), N=r.choice([16, 32, 64]), ess_ratio=ratio, T=int(ratio) + r.choice([1, 2, 3]),
                        spread=r.choice([1.0, 3.0, 10.0]), beta_star=star, kernel=r.choice(["tpcn", "rwm"])))
    return out


def run_constructed(case):
    import json

    from .. import constructed, targets as T
    from ..world import World, forget

    N = case["N"]
    built = constructed.build(case, n_total=N)
    if built is None:
        return dict(violations=[], stats=dict(constructed_unsuitable=1), probes={}, digest="unsuitable", distinct_key=None, nontrivial=False)
    blob, hist, target = built
    mon = PosteriorMon(random.Random(case["seed"] + 3), PROP, full=False)
    cfg = dict(n_particles=N, ess_ratio=case["ess_ratio"], clustering=False, sample=case.get("kernel", "tpcn"), random_state=case["seed"] % 1000)
    w = World(dict(seed=case["seed"], target=dict(T.spec_gauss(d=case["d"], lo=0.0, hi=1.0, mu=0.5, sig=0.2), kind="gauss"), cfg=cfg), monitors=[mon])
    beta_end, exc = None, None
    with w.incarnation() as inc:
        path = constructed.write(w, blob)
        s = inc.new_sampler()
        try:
            s.run(n_total=N, resume_state_path=path, progress=False)
            beta_end = float(s.state.get_current("beta"))
            # the imported history is synthetic (its logL values are not the target's): only the postconditions that speak about the stored history
            # (beta, ESS >= n_total, evidence() == MIS logZ(1)) are judged here, not the row-by-row identity of posterior()
            from ..oracles import run_postconditions

            run_postconditions(w, s, N, PROP, dict(phase="resumed"))
        except Exception as e:
            exc = f"{type(e).__name__}: {e}"
            forget(e)
    if w.escapes:
        raise RuntimeError("; ".join(w.escapes))
    if beta_end is not None and beta_end < 1.0:
        w.probe("run_ended_with_beta_below_one")
    return dict(violations=list(w.violations), stats=dict(constructed_runs=1, **({"constructed_run_raised": 1} if exc else {})), probes=dict(w.probes), digest=json.dumps([beta_end, len(w.violations), exc]),
                distinct_key=f"constructed/T{case['T']}/N{N}/r{case['ess_ratio']}/b*{case['beta_star']:.6f}/{case.get('kernel')}", nontrivial=beta_end is not None,
                sample=dict(kind="constructed checkpoint, resumed", beta_star=case["beta_star"], beta_end=beta_end, exc=exc))


def run_case(case):
    if case.get("constructed"):
        return run_constructed(case)
    mon = PosteriorMon(random.Random(case["seed"] + 3), PROP, full=True)
    out, w, info = wp.run_with(case, [mon])
    out["stats"].update(posterior_option_combinations=mon.combos)
    out["nontrivial"] = bool(info["completed"])
    out["sample"] = dict(cfg_class=out["distinct_key"], combos=mon.combos, completed=info["completed"])
    return out


def shrink(case):
    if case.get("constructed"):
        if case["T"] > 1:
            yield dict(case, T=1)
        if case["d"] > 1:
            yield dict(case, d=1)
        return
    yield from wp.generic_shrink(case)
