"""C12 - run() postconditions and the posterior()/evidence() contract."""
import random

from ..monitors import PosteriorMon
from ..sched import Sched
from . import _worldprop as wp

PROP = "C12"
LEVEL = "exploration"
RULE = ("seeded sampler executions (incl. crash->resume and re-run); at the end of every completed run: beta, ESS>=n_total and evidence()==RefMIS logZ(1) exactly, then all 2^4 "
        "combinations of posterior(resample, trim_importance_weights, return_blobs, return_logw) x ess_trim {0.5,0.9,0.99,0.999} x bins_trim {10,100,1000}: weights, equal lengths, "
        "row-by-row identity (logL==L(x), blob==B(x), logw == reference log-weight of that row); distinct = configuration/scenario class; non-trivial = run completed")
ASSUMPTIONS = ["RefMIS is the oracle for evidence and per-row log-weights"]


def cases(seed, tier):
    sch = Sched(seed)
    n = 240 if tier == "quick" else 8000
    out = []
    for k in range(n):
        r = random.Random(sch.np_seed(f"c12.{k}"))
        c = wp.std_case(r, sch.np_seed(f"s{k}"), kinds=("gauss", "bimodal", "expedge", "hole", "corr"), scenarios=("plain", "plain", "crash_resume", "rerun", "resume_final", "load_only", "extra_samples", "like_raise"))
        out.append(c)
    return out


def run_case(case):
    mon = PosteriorMon(random.Random(case["seed"] + 3), PROP, full=True)
    out, w, info = wp.run_with(case, [mon])
    out["stats"].update(posterior_option_combinations=mon.combos)
    out["nontrivial"] = bool(info["completed"])
    out["sample"] = dict(cfg_class=out["distinct_key"], combos=mon.combos, completed=info["completed"])
    return out


shrink = wp.generic_shrink
