"""C03 - mutation kernels leave the tempered target invariant (stage-ensemble engine, statistical oracle).

The simulator constructs a state whose M active particles are exact iid draws from pi_beta (product-form
targets sampled by inverse CDF), runs the real mutate stage (Mutator.run -> parallel_mcmc) under the RNG seam
and compares the post-stage empirical marginal CDFs, second moments and (d>=2) cross moments with the exact values.
d=1, n_steps=n_max_steps=1 is exactly one kernel application with independent walkers (binomial law exact);
for d>=2 the stage takes >= d steps with step-size adaptation coupling the walkers, so the ensemble is split
into independent stage calls and a t-test on the call means is used.
"""
import json
import math
import random

import numpy as np

from .. import seams, targets as T
from ..sched import Sched

PROP = "C03"
LEVEL = "exploration"
RULE = ("cells = kernel {tpcn,rwm} x boundary type of the tested coordinate {hard-interior, hard-abutting, periodic, reflective} x target factor {flat, truncated Gaussian, exponential at an edge, "
        "von Mises across the wrap point} x mode statistics {K in 1,2; means inside/outside the cube; random SPD scale; nu in 1,5,1e6} x beta in {0.1,0.5,1} x preset step size x d in {1,2,3}; "
        "each cell starts the real mutate stage from exact draws of pi_beta and tests marginal CDFs at 7 quantiles, second moments and cross moments E[u_i u_j] (|z|<=6 per statistic); "
        "RWM on periodic/reflective/interior coordinates is the standing negative control; distinct = cell; non-trivial = acceptance rate in (0.02,0.98)")
ASSUMPTIONS = ["statistical oracle: a cell is a violation iff some |z|>6 (per-statistic false-alarm probability 2e-9 under the null)",
               "d>=2 cells use a t-test over independent stage calls, so walker coupling through step-size adaptation cannot masquerade as a violation; its O(1/walkers) effect is below the resolution",
               "detailed balance itself (every state pair) is not decided, only its observable consequence on sampled cells"]
Z = 6.0


def build_target(cell):
    d = cell["d"]
    f0 = cell["factor"]
    # companion coordinates are hard and abut the upper face, so that mixed-boundary handling is exercised too
    facs = [f0] + [cell.get("companion", ["gauss", 0.5, 0.2])] * (d - 1)
    return T.Target(dict(d=d, lo=[0.0] * d, hi=[1.0] * d, comps=[dict(w=1.0, factors=facs)]))


def vec_loglike(tgt):
    fs = tgt.comps[0][1]

    def ll(X):
        X = np.asarray(X)
        v = np.zeros(len(X))
        for i, f in enumerate(fs):
            v = v + f.logf_vec(X[:, i])
        return v, None

    return ll


def mode_stats(cell, d):
    from tempest.modes import ModeStatistics

    r = np.random.RandomState(cell["ms_seed"])
    K = cell["K"]
    means, covs = [], []
    if cell.get("mismatch"):
        # modes placed relative to the (interior, Gaussian) tempered target: cluster k sits `off` target standard deviations away from the target mean and is
        # `mult` times as wide - a badly fitted mode has low acceptance, so its step size adapts away from the cap while a well fitted one stays there
        facs = [cell["factor"]] + [cell.get("companion", ["gauss", 0.5, 0.2])] * (d - 1)
        for k in range(K):
            off, mult = cell["mismatch"][k]
            sd = np.array([f[2] / math.sqrt(cell["beta"]) for f in facs])
            means.append(np.array([f[1] for f in facs]) + off * sd)
            covs.append(np.diag((mult * sd) ** 2))
        return ModeStatistics(np.array(means), np.array(covs), np.array([cell["nu"]] * K, dtype=float))
    for k in range(K):
        m = r.uniform(0.1, 0.9, size=d)
        if cell["mean_outside"] and k == 0:
            m[0] = r.choice([-0.3, 1.4])
        A = r.normal(size=(d, d))
        c = A @ A.T / d + 0.3 * np.eye(d)
        c = c * cell["scale"] ** 2
        means.append(m)
        covs.append(c)
    return ModeStatistics(np.array(means), np.array(covs), np.array([cell["nu"]] * K, dtype=float))


def one_stage(cell, tgt, ll, ms, M, seed):
    """One call of the real mutate stage from exact pi_beta draws; returns post-stage u and acceptance."""
    from tempest.state_manager import StateManager
    from tempest.steps.mutate import Mutator
    import tempest.mcmc as tm

    d = cell["d"]
    beta = cell["beta"]
    drng = np.random.RandomState(seed % (2**31))
    u = tgt.sample_tempered_u(drng, M, beta)
    x = tgt.T(u)
    logl, _ = ll(x)
    if cell.get("assign") == "position" and cell["K"] >= 2:
        # what the resampling stage does: the label is a function of where the particle sits
        a = (u[:, 0] > cell.get("split", 0.3)).astype(int)
    else:
        a = drng.randint(0, cell["K"], size=M)
    st = StateManager(d)
    st.update_current(dict(u=u, x=x, logl=logl, assignments=a, beta=beta, calls=0, iter=1, logz=0.0))
    per = [0] if cell["boundary"] == "periodic" else None
    ref = [0] if cell["boundary"] == "reflective" else None
    mut = Mutator(state=st, prior_transform=tgt.T, log_likelihood=ll, pbar=None, n_particles=M, n_dim=d, n_steps=cell.get("n_steps", 1), n_max_steps=cell.get("n_max_steps", 1),
                  sampler=cell["kernel"], periodic=per, reflective=ref, have_blobs=False)
    run = seams.RngRun((seed * 7 + 1) % (2**31), record=0)
    restore = []
    if cell.get("sigma") is not None:
        for cls in (tm.TPCNRunner, tm.RWMRunner):
            restore.append((cls, cls._initialize_sigmas))
            sig = cell["sigma"]
            # the step size is set through the runner's own input (its nominal step size), and the runner's own initialisation then runs unchanged:
            # whatever it derives or caches from the step size stays consistent (returning a different array from here would not be)
            def _init(self, sig=sig, orig=cls._initialize_sigmas):
                self.sigma_0 = sig
                return orig(self)

            cls._initialize_sigmas = _init
    try:
        with seams.active(run):
            mut.run(ms)
    finally:
        for cls, f in restore:
            cls._initialize_sigmas = f
    return st._current["u"], float(st._current["acceptance"]), int(st._current["steps"]), u


def run_case(cell):
    tgt = build_target(cell)
    ll = vec_loglike(tgt)
    d = cell["d"]
    ms = mode_stats(cell, d)
    beta = cell["beta"]
    fs = tgt.comps[0][1]
    qs = np.arange(1, 8) / 8.0
    pts = [np.asarray(f.ppf(qs, 0.0, 1.0, beta)) for f in fs]
    mom = [f.moments(0.0, 1.0, beta) for f in fs]
    stats_out, zs = [], []
    if d == 1 and not cell.get("multi"):
        u1, acc, steps, u0 = one_stage(cell, tgt, ll, ms, cell["M"], cell["seed"])
        M = len(u1)
        for j, (q, p) in enumerate(zip(qs, pts[0])):
            ph = float(np.mean(u1[:, 0] <= p))
            z = (ph - q) / math.sqrt(q * (1 - q) / M)
            zs.append(("cdf", 0, float(q), z))
        m2 = mom[0][1] + mom[0][0] ** 2
        v = u1[:, 0] ** 2
        zs.append(("m2", 0, None, (float(v.mean()) - m2) / (float(v.std()) / math.sqrt(M) + 1e-300)))
        # self-check of the exact start (must be clean, else the harness is wrong)
        z0 = max(abs((float(np.mean(u0[:, 0] <= p)) - q) / math.sqrt(q * (1 - q) / M)) for q, p in zip(qs, pts[0]))
    else:
        calls, m = cell["calls"], cell["M"] // cell["calls"]
        cm = {(i, j): [] for i in range(d) for j in range(7)}
        m2s = {i: [] for i in range(d)}
        xms = {(i, j): [] for i in range(d) for j in range(i + 1, d)}
        accs = []
        z0 = 0.0
        for c in range(calls):
            u1, acc, steps, u0 = one_stage(cell, tgt, ll, ms, m, cell["seed"] + 101 * c)
            accs.append(acc)
            for i in range(d):
                for j, p in enumerate(pts[i]):
                    cm[(i, j)].append(float(np.mean(u1[:, i] <= p)))
                m2s[i].append(float(np.mean(u1[:, i] ** 2)))
            for (i, j) in xms:
                xms[(i, j)].append(float(np.mean(u1[:, i] * u1[:, j])))
        acc = float(np.mean(accs))
        for (i, j), vals in cm.items():
            vals = np.array(vals)
            zs.append(("cdf", i, float(qs[j]), (vals.mean() - qs[j]) / (vals.std(ddof=1) / math.sqrt(len(vals)) + 1e-300)))
        for i, vals in m2s.items():
            vals = np.array(vals)
            zs.append(("m2", i, None, (vals.mean() - (mom[i][1] + mom[i][0] ** 2)) / (vals.std(ddof=1) / math.sqrt(len(vals)) + 1e-300)))
        for (i, j), vals in xms.items():  # coordinates are independent under a product-form pi_beta: E[u_i u_j] = m_i m_j
            vals = np.array(vals)
            zs.append(("cross", (i, j), None, (vals.mean() - mom[i][0] * mom[j][0]) / (vals.std(ddof=1) / math.sqrt(len(vals)) + 1e-300)))
        # t-distribution with calls-1 dof: convert the threshold (two-sided 2e-9) to the t scale
    zmax = max(zs, key=lambda t: abs(t[3]))
    thr = Z
    if d > 1 or cell.get("multi"):
        from scipy import stats as sst

        thr = float(sst.t.isf(sst.norm.sf(Z), cell["calls"] - 1))
    violations = []
    assign = "position" if (cell.get("assign") == "position" and cell["K"] >= 2) else "independent"
    btype = cell["boundary"] if cell["boundary"] in ("periodic", "reflective") else "hard"
    fail_btype = btype  # coordinates other than the first are always hard
    if z0 > Z:
        raise RuntimeError(f"harness self-check failed: exact start sample has |z|={z0:.1f}")
    if abs(zmax[3]) > thr:
        violations.append(dict(property=PROP, oracle="invariance", detail=f"{cell['kernel']} on a {cell['boundary']} coordinate, factor {cell['factor']}, beta={beta}, d={d}, K={cell['K']}, nu={cell['nu']}, sigma={cell.get('sigma')}: "
                               f"after the mutate stage {zmax[0]}[coord {zmax[1]}, q={zmax[2]}] is off by z={zmax[3]:+.1f} (threshold {thr:.1f}); acceptance {acc:.2f}",
                               keys=dict(kernel=cell["kernel"], boundary=btype, d_gt1=bool(d > 1), assignment=assign)))
    return dict(violations=violations, stats=dict(walkers=cell["M"], stages=1 if (d == 1 and not cell.get("multi")) else cell["calls"], multi_step_cells=int(bool(cell.get("multi")))), probes={}, digest=json.dumps([round(z[3], 6) for z in zs][:4]),
                distinct_key=json.dumps({k: cell.get(k) for k in ("kernel", "boundary", "factor", "beta", "d", "K", "nu", "sigma", "mean_outside", "assign", "companion", "multi", "n_steps", "n_max_steps", "mismatch")}, sort_keys=True),
                nontrivial=0.02 < acc < 0.98, zmax=abs(zmax[3]) / thr * Z, cellkey=f"{cell['kernel']}/{btype}" + ("/assign-by-position" if assign == "position" else ""),
                sample=dict(cell={k: cell[k] for k in ("kernel", "boundary", "factor", "beta", "d", "K", "nu", "sigma")}, acceptance=round(acc, 3), max_abs_z=round(abs(zmax[3]), 2), statistic=zmax[:3]))


def cases(seed, tier):
    sch = Sched(seed)
    n = 64 if tier == "quick" else 640
    out = []
    combos = []
    for kernel in ("tpcn", "rwm"):
        combos += [(kernel, "hard-interior", ["gauss", 0.5, 0.08]), (kernel, "hard-abutting", ["gauss", 0.02, 0.25]), (kernel, "hard-abutting", ["expo", 6.0]), (kernel, "hard-abutting", ["flat"]),
                   (kernel, "periodic", ["vonmises", 3.0, 0.03]), (kernel, "periodic", ["flat"]), (kernel, "reflective", ["gauss", 0.0, 0.3]), (kernel, "reflective", ["flat"])]
    for k in range(n):
        r = random.Random(sch.np_seed(f"c03.{k}"))
        kernel, boundary, factor = combos[k % len(combos)]
        d = 1 if (tier == "quick" and k < 24) or (tier != "quick" and r.random() < 0.5) else r.choice([2, 2, 3])
        cell = dict(kernel=kernel, boundary=boundary, factor=factor, beta=r.choice([0.1, 0.5, 1.0]), d=d, K=r.choice([1, 1, 2]), nu=r.choice([1.0, 5.0, 1e6]),
                    mean_outside=r.random() < 0.25, scale=r.choice([0.1, 0.3, 1.0]), sigma=r.choice([None, None, 0.2, 0.5, 0.9]), ms_seed=r.randrange(2**31), seed=sch.np_seed(f"c03s.{k}") % (2**31),
                    M=100000 if tier == "quick" else 200000, calls=40)
        if d > 1:
            cell["companion"] = r.choice([["gauss", 0.5, 0.2], ["gauss", 0.9, 0.25], ["expo", 4.0], ["gauss", 0.05, 0.3]])
        if k % 8 == 7 or (tier != "quick" and r.random() < 0.15):
            # labels that depend on the particle's position (as produced by clusterer.predict in the resampling stage), two different modes
            cell.update(K=2, assign="position", split=r.choice([0.2, 0.3, 0.5]), boundary="hard-abutting" if boundary.startswith("hard") else boundary, mean_outside=False)
        if k % 8 == 3 or (tier != "quick" and r.random() < 0.15):
            # several adaptive steps: the stop rule (adaptive number of steps) and the step-size adaptation take part
            cell.update(multi=True, n_steps=r.choice([2, 3]), n_max_steps=r.choice([6, 10, 20]))
        if kernel == "tpcn" and cell["sigma"] is not None:
            cell["sigma"] = min(cell["sigma"], 0.99)
        out.append(cell)
    # step-size adaptation cells: several MCMC steps with modes fitted so badly (or so differently per cluster) that the per-cluster step sizes leave their
    # cap and differ from each other; whatever the runner derives from a step size must follow it
    adapt = [("tpcn", 1, [(2.0, 3.0)], 1), ("tpcn", 2, [(2.0, 3.0), (0.0, 1.0)], 1), ("tpcn", 2, [(0.0, 1.0), (2.0, 3.0)], 2), ("rwm", 2, [(2.0, 4.0), (0.0, 1.0)], 1),
             ("tpcn", 2, [(1.5, 0.4), (0.0, 1.2)], 2), ("rwm", 1, [(0.0, 5.0)], 2), ("tpcn", 1, [(0.0, 4.0)], 2), ("tpcn", 3, [(2.0, 3.0), (0.0, 1.0), (-1.0, 2.0)], 1)]
    for k, (kernel, K, mm, d) in enumerate(adapt if tier == "quick" else adapt * 6):
        r = random.Random(sch.np_seed(f"c03.adapt{k}"))
        out.append(dict(kernel=kernel, boundary="hard-interior", factor=["gauss", 0.5, r.choice([0.05, 0.08])], beta=r.choice([0.5, 1.0]), d=d, K=K, nu=r.choice([5.0, 1e6]), mean_outside=False, scale=1.0,
                        sigma=None, ms_seed=r.randrange(2**31), seed=sch.np_seed(f"c03as.{k}") % (2**31), M=100000 if tier == "quick" else 200000, calls=40, mismatch=mm,
                        multi=True, n_steps=r.choice([4, 6]), n_max_steps=r.choice([10, 20]), **({"companion": ["gauss", 0.5, 0.1]} if d > 1 else {})))
    # near-singular scale matrices: a direction whose posterior standard deviation is 1e-5 .. 1e-4 of the prior range, fitted exactly by its mode; whatever the
    # kernel derives from the scale matrix (factor for the noise, inverse for the acceptance ratio) must describe the same matrix to much better than that
    tight = [("tpcn", 1, 1e-5), ("tpcn", 2, 1e-5), ("rwm", 1, 1e-5), ("tpcn", 1, 1e-4)]
    for k, (kernel, d, sd) in enumerate(tight if tier == "quick" else tight * 4):
        r = random.Random(sch.np_seed(f"c03.tight{k}"))
        out.append(dict(kernel=kernel, boundary="hard-interior", factor=["gauss", round(r.uniform(0.3, 0.7), 3), sd], beta=r.choice([0.5, 1.0]), d=d, K=1, nu=r.choice([7.0, 1e6]), mean_outside=False, scale=1.0,
                        sigma=None, ms_seed=r.randrange(2**31), seed=sch.np_seed(f"c03ts.{k}") % (2**31), M=100000 if tier == "quick" else 200000, calls=40, mismatch=[(0.0, 1.0)],
                        **({"companion": ["gauss", 0.5, 0.1]} if d > 1 else {})))
    return out


def shrink(cell):
    if cell["d"] > 1:
        yield dict(cell, d=1)
    if cell["K"] > 1:
        yield dict(cell, K=1)
    if cell["mean_outside"]:
        yield dict(cell, mean_outside=False)
    if cell.get("sigma") is not None:
        yield dict(cell, sigma=None)
    if cell["nu"] != 1e6:
        yield dict(cell, nu=1e6)
    if cell["beta"] != 1.0:
        yield dict(cell, beta=1.0)


def evidence(results, cases_, tier):
    by = {}
    for r in results:
        if r.get("cellkey"):
            by.setdefault(r["cellkey"], []).append(round(r.get("zmax", 0.0), 2))
    return dict(max_abs_z_by_kernel_and_boundary={k: dict(cells=len(v), max=max(v), median=sorted(v)[len(v) // 2]) for k, v in sorted(by.items())},
                walkers_per_cell=cases_[0]["M"] if cases_ else None)
