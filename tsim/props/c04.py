"""C04 - importance weights follow the balance-heuristic mixture formula (refinement vs RefMIS on reached histories)."""
import random

from ..monitors import WeightsMon
from ..sched import Sched
from . import _worldprop as wp

PROP = "C04"
LEVEL = "exploration"
RULE = ("refinement of compute_logw_and_logz against an independent extended-precision reference after every commit and every load of seeded sampler "
        "executions; histories reached: equal batches, unequal batches (reconfigured resume), non-monotone beta order (re-run on a retained history), "
        "warm-up batches with different logZ_t (zero-likelihood regions), |log L| up to ~1e6, likelihood shifts; plus permutation and shift laws on the "
        "implementation itself; distinct = configuration/scenario class; non-trivial = at least 3 iterations")
ASSUMPTIONS = ["only histories that some execution produces are explored (arbitrary synthetic logZ_t are not)", "RefMIS in 80-bit long double is the oracle; tolerance 1e-8 + 2560 eps (max|logL|+max|logZ_t|)"]


def cases(seed, tier):
    sch = Sched(seed)
    n = 400 if tier == "quick" else 30000
    out = []
    for k in range(n):
        r = random.Random(sch.np_seed(f"c04.{k}"))
        c = wp.std_case(r, sch.np_seed(f"s{k}"), kinds=("gauss", "bimodal", "expedge", "hole", "corr"), scenarios=("plain", "crash_resume", "crash_resume", "rerun", "rerun"), blobs=(0,), evals=("scalar", "vector"))
        if c["scenario"] == "crash_resume":
            c["reconfig"] = dict(n_particles=c["cfg"]["n_particles"] * r.choice([2, 3]))
        if r.random() < 0.25:
            # extreme likelihood scale: |log L| up to ~2e6 (kept 1-D and small so that the ~100 annealing iterations stay cheap)
            from .. import targets as T

            c["target"] = dict(T.spec_gauss(d=1, mu=round(r.uniform(-0.3, 0.3), 3), sig=r.choice([0.002, 0.0007])), kind="gauss")
            c["cfg"]["n_particles"] = r.choice([8, 16])
            c["cfg"].pop("periodic", None)
            c["cfg"].pop("reflective", None)
            c["n_total"] = 32
            c["extreme"] = True
        if r.random() < 0.3:
            c["target"]["shift"] = r.choice([-1000.0, -37.5, 64.0, 1000.0])
        out.append(c)
    return out


def run_case(case):
    r = random.Random(case["seed"] + 17)
    mon = WeightsMon(r, PROP)
    out, w, info = wp.run_with(case, [mon])
    out["stats"].update(weight_checks=mon.n_checks)
    out["reach"] = mon.reach
    out["sample"] = dict(cfg_class=out["distinct_key"], reach=mon.reach)
    return out


def evidence(results, cases_, tier):
    agg = dict(T_max=0, unequal_batches=0, nonmonotone_beta=0, max_abs_logl=0.0)
    for r in results:
        m = r.get("reach") or {}
        agg["T_max"] = max(agg["T_max"], m.get("T_max", 0))
        agg["max_abs_logl"] = max(agg["max_abs_logl"], m.get("max_abs_logl", 0.0))
        agg["unequal_batches"] += m.get("unequal_batches", 0)
        agg["nonmonotone_beta"] += m.get("nonmonotone_beta", 0)
    return dict(reached_histories=agg)


shrink = wp.generic_shrink
