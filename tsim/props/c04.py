"""C04 - importance weights follow the balance-heuristic mixture formula (refinement vs RefMIS on reached histories)."""
import json
import random

from ..monitors import WeightsMon
from ..sched import Sched
from . import _worldprop as wp

PROP = "C04"
LEVEL = "exploration"
RULE = ("refinement of compute_logw_and_logz against an independent extended-precision reference after every commit and every load of seeded sampler "
        "executions; histories reached: equal batches, unequal batches (reconfigured resume), non-monotone beta order (re-run on a retained history), "
        "warm-up batches with different logZ_t (zero-likelihood regions), |log L| up to ~1e6, likelihood shifts; plus checkpoints with synthetic histories (T 1..20, unequal n_t>=1, beta_t in any order, "
        "arbitrary finite logZ_t up to +-1e3, log-likelihoods spanning +-1e6) imported through the simulated file system with load_state; plus permutation and shift laws on the "
        "implementation itself; distinct = configuration/scenario class; non-trivial = at least 3 iterations")
ASSUMPTIONS = ["reachable histories come from simulated executions; synthetic ones enter only through the durable checkpoint path (load_state)", "RefMIS in 80-bit long double is the oracle; tolerance 1e-8 + 2560 eps (max|logL|+max|logZ_t|), plus N eps (max|logw|+log N) for quantities behind a reduction over all N samples (normaliser, logZ)"]


def cases(seed, tier):
    sch = Sched(seed)
    n = 400 if tier == "quick" else 30000
    out = []
    for k in range(n):
        r = random.Random(sch.np_seed(f"c04.{k}"))
        c = wp.std_case(r, sch.np_seed(f"s{k}"), kinds=("gauss", "bimodal", "expedge", "hole", "corr"), scenarios=("plain", "crash_resume", "crash_resume", "rerun", "rerun", "like_raise", "rewind"), blobs=(0,), evals=("scalar", "vector"))
        if c["scenario"] == "crash_resume":
            c["reconfig"] = dict(n_particles=c["cfg"]["n_particles"] * r.choice([2, 3]))
        if r.random() < 0.25:
            # extreme likelihood scale: |log L| up to ~2e6 (kept 1-D and small so that the ~100 annealing iterations stay cheap)
            from .. import targets as T

            c["target"] = dict(T.spec_gauss(d=1, mu=round(r.uniform(-0.3, 0.3), 3), sig=r.choice([0.002, 0.0007])), kind="gauss")
            c["cfg"]["n_particles"] = r.choice([8, 16])
            c["cfg"].pop("periodic", None)
            c["cfg"].pop("reflective", None)
            c["n_total"] = 32
            c["extreme"] = True
        if r.random() < 0.3:
            c["target"]["shift"] = r.choice([-1000.0, -37.5, 64.0, 1000.0])
        out.append(c)
    for k in range(n // 2):
        r = random.Random(sch.np_seed(f"c04.syn{k}"))
        out.append(dict(synthetic=True, seed=sch.np_seed(f"syn{k}") % (2**31), d=r.choice([1, 2, 3]), T=r.choice([1, 2, 3, 5, 8, 12, 20, 129, 200, 300]), unequal=r.random() < 0.7, shuffle=r.random() < 0.6,
                        scale=r.choice([1.0, 100.0, 1e4, 1e6])))
    for k in range(1 if tier == "quick" else 4):
        out.append(dict(synthetic=True, seed=sch.np_seed(f"synhuge{k}") % (2**31), d=1, T=64, unequal=False, shuffle=k % 2 == 1, scale=1.0, huge=[5300, 4200, 9000, 6100][k]))
    return out


def run_synthetic(case):
    """A checkpoint with a synthetic history (any T, unequal n_t>=1, beta_t in any order, arbitrary finite logZ_t,
    log-likelihoods spanning +-1e6) is written into the simulated file system and imported through load_state."""
    import dill
    import numpy as np

    from ..world import World
    from .. import targets as T

    r = random.Random(case["seed"])
    nr = np.random.RandomState(case["seed"] % (2**31))
    d = case["d"]
    Tn = case["T"]
    scale = case["scale"]
    hist = {k: [] for k in ("u", "x", "logl", "blobs", "iter", "logz", "calls", "steps", "efficiency", "ess", "acceptance", "beta")}
    betas = sorted(r.random() for _ in range(Tn))
    betas[0] = 0.0
    if r.random() < 0.5:
        betas[-1] = 1.0
    if case["shuffle"]:
        r.shuffle(betas)
    for t in range(Tn):
        n = r.choice([1, 2, 3, 5, 8, 13, 32]) if case["unequal"] else 8
        if case.get("huge"):
            n = case["huge"] + (t % 7)  # samples x iterations above 2^24: beyond any block size a memory-saving evaluation path might introduce, and not a multiple of it
        hist["u"].append(nr.random_sample((n, d)))
        hist["x"].append(nr.random_sample((n, d)))
        center = r.uniform(-1, 1) * scale
        hist["logl"].append(center + nr.standard_normal(n) * r.choice([1.0, 30.0, scale / 3.0]))
        hist["logz"].append(r.uniform(-1, 1) * r.choice([1.0, 50.0, 1000.0]))
        hist["beta"].append(betas[t])
        hist["iter"].append(t + 1)
        hist["calls"].append(8 * (t + 1))
        hist["steps"].append(1)
        hist["efficiency"].append(1.0)
        hist["acceptance"].append(1.0)
        hist["ess"].append(float(n))
    cur = dict(u=hist["u"][-1], x=hist["x"][-1], logl=hist["logl"][-1], assignments=np.zeros(len(hist["logl"][-1]), dtype=int), blobs=None, acceptance=1.0, steps=1, efficiency=1.0,
               ess=1.0, beta=hist["beta"][-1], logz=hist["logz"][-1], calls=hist["calls"][-1], iter=Tn)
    blob = {"_current": cur, "_history": hist, "n_dim": d, "random_state": None, "n_total": 64, "logz_err": None}
    mon = WeightsMon(random.Random(case["seed"] + 1), PROP)
    w = World(dict(seed=case["seed"], target=dict(T.spec_gauss(d=d), kind="gauss"), cfg=dict(n_particles=8, clustering=False)), monitors=[mon])
    with w.incarnation() as inc:
        w.fs.sys_mkdir("/simfs/out")
        with open("/simfs/out/synthetic.state", "wb") as f:
            dill.dump(blob, f)
        s = inc.new_sampler()
        s.load_state("/simfs/out/synthetic.state")
        # a second checkpoint with the same batch sizes but other values is loaded into the *used* sampler (nothing may be
        # carried over from the first history: caches keyed by the pool size would)
        blob2 = dict(blob)
        h2 = {k: list(v) for k, v in hist.items()}
        h2["logl"] = [np.asarray(x)[::-1] * 0.7 - 3.0 for x in hist["logl"]]
        h2["logz"] = [z * 0.5 + 1.0 for z in hist["logz"]]
        h2["beta"] = list(reversed(hist["beta"])) if len(hist["beta"]) > 1 and case["shuffle"] else list(hist["beta"])
        blob2["_history"] = h2
        blob2["_current"] = dict(cur, logl=h2["logl"][-1], beta=h2["beta"][-1], logz=h2["logz"][-1])
        with open("/simfs/out/synthetic2.state", "wb") as f:
            dill.dump(blob2, f)
        s.load_state("/simfs/out/synthetic2.state")
        w.probe("second_history_loaded_into_used_sampler")
    if w.escapes:
        raise RuntimeError("; ".join(w.escapes))
    return dict(violations=list(w.violations), stats=dict(weight_checks=mon.n_checks, synthetic_histories=1), probes=dict(w.probes), digest=json.dumps([mon.n_checks, len(w.violations)]),
                distinct_key=f"synthetic/T{Tn}/u{int(case['unequal'])}/s{int(case['shuffle'])}/scale{scale:g}", nontrivial=True, reach=mon.reach,
                sample=dict(kind="synthetic checkpoint", T=Tn, sizes=[len(x) for x in hist["logl"]], betas=[round(b, 3) for b in hist["beta"]], logz=[round(z, 2) for z in hist["logz"]], reach=mon.reach))


def run_case(case):
    if case.get("synthetic"):
        return run_synthetic(case)
    r = random.Random(case["seed"] + 17)
    mon = WeightsMon(r, PROP)
    out, w, info = wp.run_with(case, [mon])
    out["stats"].update(weight_checks=mon.n_checks)
    out["reach"] = mon.reach
    out["sample"] = dict(cfg_class=out["distinct_key"], reach=mon.reach)
    return out


def evidence(results, cases_, tier):
    agg = dict(T_max=0, unequal_batches=0, nonmonotone_beta=0, max_abs_logl=0.0)
    for r in results:
        m = r.get("reach") or {}
        agg["T_max"] = max(agg["T_max"], m.get("T_max", 0))
        agg["max_abs_logl"] = max(agg["max_abs_logl"], m.get("max_abs_logl", 0.0))
        agg["unequal_batches"] += m.get("unequal_batches", 0)
        agg["nonmonotone_beta"] += m.get("nonmonotone_beta", 0)
    return dict(reached_histories=agg)


def shrink(case):
    return _shrink_syn(case) if case.get("synthetic") else wp.generic_shrink(case)



def _shrink_syn(case):
    if case["T"] > 1:
        yield dict(case, T=max(1, case["T"] // 2))
    if case["unequal"]:
        yield dict(case, unequal=False)
    if case["shuffle"]:
        yield dict(case, shuffle=False)
    if case["scale"] > 1:
        yield dict(case, scale=case["scale"] / 100.0 if case["scale"] >= 100 else 1.0)
    if case["d"] > 1:
        yield dict(case, d=1)
