"""C08 - checkpoints restore exactly, resume continues the run, saves are crash-safe.

Engine: world + crash.  Every case first runs a fault-free *census twin* (same seed) that
numbers the file-system syscalls and marks the save windows; faults are then placed at
positions inside those windows (all of them for `enumerate` cases).  Oracles O1..O4, see DESIGN.
"""
import copy
import json
import random

import numpy as np

from .. import gen, oracles
from ..sched import Sched
from ..seams import SimHang
from ..simfs import SimCrash
from ..world import Monitor, World, forget, snapshot_state

PROP = "C08"
LEVEL = "fault_enumeration"
RULE = ("each case = one seeded sampler execution with checkpoints (config x eval mode x pool x stderr kind x save cadence); "
        "fault arms place process/machine crashes and I/O errors at syscall positions inside save windows taken from a fault-free "
        "census twin; `enumerate` cases visit every syscall of every save window x {process,machine} x byte offsets {0,1,len-1,seeded}; "
        "distinct = distinct (config class, crash-point class) pairs; non-trivial = at least one checkpoint was written and verified")
ASSUMPTIONS = [
    "crash model: process death loses CPython user-space buffers only; machine crash additionally keeps only fsynced data and a seeded prefix of the namespace journal (fsync is a journal barrier, ext4-like)",
    "the simulated file system implements the calls tempest/pathlib/dill use (open/read/write/fsync/close/rename/replace/unlink/mkdir/stat/listdir)",
    "snapshots are read directly from StateManager._current/_history at entry to each save",
    "absence of a previously acknowledged file after a machine crash is not judged (the property asks for no truncated/unloadable file, not durability of the newest checkpoint)",
]


class SaveSnap(Monitor):
    """RefCheckpoint: deep snapshot of the state at entry to every save, per final path."""

    def __init__(self):
        self.acked = {}  # path -> [snap, ...]
        self.pending = {}  # path -> snap (in flight / failed)
        self.save_errors = []
        self.pool_detached = []
        self.order = []

    def before_save(self, inc, core, path):
        p = str(path)
        snap = snapshot_state(core.state)
        snap["n_total"] = getattr(core, "n_total", None)
        snap["iter"] = core.state._current.get("iter")
        self.pending[p] = snap
        self._pool = core.config.pool

    def after_save(self, inc, core, path, err):
        p = str(path)
        if core.config.pool is not self._pool:
            self.pool_detached.append(p)
        if err is None:
            self.acked.setdefault(p, []).append(self.pending.pop(p))
            self.order.append(p)
        else:
            self.save_errors.append((p, f"{type(err).__name__}: {err}"))


class ResumeMon(Monitor):
    """O2: restored prefix stays bit-identical, counters and schedule continue."""

    def __init__(self, world, snap, keys):
        self.w, self.snap, self.keys = world, snap, keys
        self.len_k = len(snap["history"]["beta"])
        self.first = True
        self.base_points = None

    def after_load(self, inc, core, path, err):
        self.base_points = inc.world.target.n_points

    def after_commit(self, inc):
        st = inc.samplers[-1].state
        h = st._history
        snap = self.snap
        n = len(h["beta"])
        expect = self.len_k + inc.n_commits
        if n != expect:
            self.w.violation(PROP, "O2.history_length", f"after {inc.n_commits} resumed iteration(s) history has {n} batches, expected {self.len_k}+{inc.n_commits}", **self.keys)
            return
        it_k = snap["current"].get("iter") or 0
        if h["iter"] and int(h["iter"][-1]) != int(it_k) + inc.n_commits:
            self.w.violation(PROP, "O2.iter_numbering", f"recorded iter {h['iter'][-1]} after resume from iter {it_k} (+{inc.n_commits})", **self.keys)
        calls_k = snap["current"].get("calls") or 0
        if self.base_points is not None:
            made = inc.world.target.n_points - self.base_points
            if int(h["calls"][-1]) != int(calls_k) + made:
                self.w.violation(PROP, "O2.calls", f"calls={h['calls'][-1]} but checkpoint had {calls_k} and {made} evaluations were made since resume", **self.keys)
        if len(h["beta"]) >= 2 and float(h["beta"][-1]) < float(h["beta"][-2]) - 0.0:
            self.w.violation(PROP, "O2.beta_restart", f"beta went {h['beta'][-2]} -> {h['beta'][-1]} across/after resume", **self.keys)
        d = oracles.diff_state(snap, st, prefix_only=self.len_k)
        if d:
            self.w.violation(PROP, "O2.prefix_changed", "; ".join(d[:3]), **self.keys)


def cfg_class(case):
    c = case["cfg"]
    return f"{c.get('sample')}/{c.get('resample')}/cl{int(bool(c.get('clustering')))}/{case.get('eval')}/b{case['target'].get('blobs', 0)}/p{int(bool(case.get('progress')))}-{case.get('stderr')}/api-{case.get('api', 'sampler')}"


def _first_run(w, case, plan, mon, like_fault=None):
    """Incarnation 0: run with checkpoints (+ explicit saves).  Returns (inc, outcome)."""
    out = dict(crashed=None, exc=None, completed=False)
    inc = w.incarnation(plan=plan, like_fault=like_fault)
    with inc:
        try:
            s = inc.new_sampler()
            inc.sampler = s
            s.run(n_total=case["n_total"], progress=bool(case.get("progress")), save_every=case.get("save_every"))
            out["completed"] = True
            for ex in case.get("extra_saves", []):
                if ex == "manual":
                    s.save_state("/simfs/out/manual.state")
                elif ex == "manual_again":
                    s.save_state("/simfs/out/manual.state")
                elif ex == "sm":
                    _sm_save(inc, s, mon)
                elif ex == "sm2":
                    _sm_save(inc, s, mon, "/simfs/out/sm.pkl")  # shares its stem (and hence StateManager's temp name) with sm.state
        except SimCrash as e:
            out["crashed"] = str(e)
            forget(e)
        except SimHang:
            raise
        except Exception as e:
            out["exc"] = type(e)
            out["exc_s"] = f"{type(e).__name__}: {e}"
            forget(e)
        out["log"] = list(w.fs.log)
        out["windows"] = [list(x) for x in w.fs.windows]
        out["sampler"] = getattr(inc, "sampler", None)
        out["inc"] = inc
    return out


def _sm_save(inc, s, mon, path="/simfs/out/sm.state"):
    """StateManager.save_state through SimFS (the second save API)."""
    snap = snapshot_state(s.state)
    mon.pending[path] = snap
    inc.world.fs.open_window(f"save:{path}")
    try:
        s.state.save_state(path)
    except Exception as e:
        mon.save_errors.append((path, f"{type(e).__name__}: {e}"))
        raise
    finally:
        if not inc.world.fs.dead:
            inc.world.fs.close_window()
    mon.acked.setdefault(path, []).append(mon.pending.pop(path))
    mon.order.append(path)


def _load_fresh(inc, path):
    """Load `path` into a freshly constructed sampler; returns (state, core) or raises."""
    if path.endswith("sm.state") or path.endswith("sm.pkl"):
        from tempest.state_manager import StateManager

        st = StateManager(inc.world.target.d)
        st.load_state(path)
        return st, None
    s = inc.new_sampler()
    s.load_state(path)
    return s.state, s._core


def verify_files(w, mon, arm, keys, inflight_ok):
    """O1 / O3 on every final-name file present after the first incarnation ended."""
    res = dict(checked=0, matched_prev=0, matched_inflight=0, absent=0)
    finals = sorted(set(mon.acked) | set(mon.pending))
    with w.incarnation() as inc:
        present = set(w.fs.files("/simfs/out"))
        for p in finals:
            if p not in present:
                res["absent"] += 1
                # a process crash cannot take an acknowledged file away (the page cache and the namespace survive it):
                # if the name is gone, a later save to the same name destroyed the old checkpoint before publishing the new one.
                # (after a machine crash an un-journalled rename may legitimately be lost, so absence is not judged there)
                if arm == "crash" and keys.get("fault") == "crash.process" and mon.acked.get(p):
                    w.violation(PROP, "O3.acked_checkpoint_vanished", f"{p} had been saved successfully {len(mon.acked[p])} time(s) but after a process crash during a later save nothing is left under that name "
                                f"(files present: {sorted(x.split('/')[-1] for x in present)})", **keys)
                if arm == "ioerr" and mon.acked.get(p):
                    # an I/O error reported by a later save must not cost the user the checkpoint an earlier save had acknowledged
                    w.violation(PROP, "O4.acked_checkpoint_destroyed_by_failed_save", f"{p} had been saved successfully {len(mon.acked[p])} time(s); a later save to the same name failed with an I/O error "
                                f"and now nothing is left under that name (files present: {sorted(x.split('/')[-1] for x in present)})", **keys)
                continue
            res["checked"] += 1
            cands = []
            if mon.acked.get(p):
                cands.append(("acked", mon.acked[p][-1]))
            if inflight_ok and p in mon.pending:
                cands.append(("inflight", mon.pending[p]))
            try:
                st, core = _load_fresh(inc, p)
            except BaseException as e:
                if isinstance(e, (SimCrash, SimHang, KeyboardInterrupt)) or type(e).__name__ == "CaseTimeout":
                    raise
                forget(e)
                orc = "O3.unloadable_after_crash" if arm == "crash" else "O1.load_raises"
                w.violation(PROP, orc, f"{p} ({w.fs.size(p)} bytes) cannot be loaded: {type(e).__name__}: {str(e)[:120]}", **keys)
                continue
            ok = None
            diffs = []
            for name, snap in cands:
                d = oracles.diff_state(snap, st)
                if core is not None and snap.get("n_total") is not None and getattr(core, "n_total", None) != snap["n_total"]:
                    d.append(f"n_total saved={snap['n_total']} loaded={getattr(core, 'n_total', None)}")
                if not d:
                    ok = name
                    break
                diffs.append((name, d))
            if ok == "acked":
                res["matched_prev"] += 1
            elif ok == "inflight":
                res["matched_inflight"] += 1
            else:
                orc = "O3.wrong_content_after_crash" if arm == "crash" else "O1.roundtrip"
                dd = "; ".join(f"vs {n}: {', '.join(d[:3])}" for n, d in diffs) or "no snapshot for this name"
                w.violation(PROP, orc, f"{p}: loaded state differs from what was saved ({dd})", **keys)
    return res


def resume_from(w, mon, path, case, keys, second_fault=None, depth=0):
    """O2: resume in a fresh incarnation from `path` (must correspond to an acked/in-flight snapshot).
    second_fault: the resumed incarnation is itself crashed at an absolute syscall index; the files are then
    verified again (O3) and the run is resumed once more from the newest checkpoint (fault sequences of length 2)."""
    snaps = ([mon.pending[path]] if path in mon.pending else []) + list(reversed(mon.acked.get(path, [])))
    if not snaps:
        return None
    # which snapshot does the file hold?  decided by a separate fresh load (already verified by O1/O3)
    with w.incarnation() as inc:
        try:
            st, _ = _load_fresh(inc, path)
        except Exception as e:
            forget(e)
            return None
        snap = next((s for s in snaps if not oracles.diff_state(s, st)), None)
    if snap is None:
        return None
    rm = ResumeMon(w, snap, keys)
    cap = oracles.IterCap(300)
    w.monitors.extend([rm, cap])
    over = {}
    if case.get("reconfig"):
        over.update(case["reconfig"])
    out = dict(done=False)
    plan2 = None
    if second_fault is not None:
        plan2 = {int(second_fault["at"]): dict(kind=second_fault["kind"], cut_seed=second_fault.get("cut_seed", 0), byte=second_fault.get("byte"))}
    try:
        with w.incarnation(plan=plan2) as inc:
            s = inc.new_sampler(**over)
            try:
                se2 = case.get("resume_save_every", case.get("save_every"))
                s.run(n_total=case.get("resume_n_total", case["n_total"]), progress=False, resume_state_path=path, save_every=se2)
                out["done"] = True
                if se2 and second_fault is None:
                    # the resumed run checkpoints every se2 iterations counted from the iteration it resumed at, under the documented names
                    lab = case["cfg"].get("output_label", "ps")
                    t0 = int(snap["current"].get("iter") or 0)
                    n_it = len(s.state._history["beta"])
                    want = [f"/simfs/out/{lab}_{i}.state" for i in range(t0 + 1, n_it) if (i - t0) % int(se2) == 0]
                    have = set(w.fs.files("/simfs/out"))
                    missing = [p for p in want if p not in have]
                    if missing and inc.n_commits > 0:
                        w.violation(PROP, "O2.resumed_checkpoint_cadence", f"resumed at iteration {t0} with save_every={se2}: expected checkpoints {[m.split('/')[-1] for m in missing[:4]]} were not written "
                                    f"(present: {sorted(x.split('/')[-1] for x in have if x.endswith('.state'))[:10]})", **keys)
            except SimCrash as e:
                forget(e)
                out["crashed_again"] = True
            except SimHang as e:
                w.violation(PROP, "O2.no_termination", f"resumed run did not terminate: {e}", **keys)
                forget(e)
            except Exception as e:
                forget(e)
                if mon.save_errors:
                    w.violation(PROP, "O4.save_raises", f"save raised during resumed run: {mon.save_errors[-1]}", **keys)
                else:
                    out["exc"] = f"{type(e).__name__}: {e}"
                    w.bump("resume.unrelated_exception")
            if out["done"]:
                if inc.n_commits == 0 and snap["current"].get("beta") is not None:
                    pass
                oracles.run_postconditions(w, s, case.get("resume_n_total", case["n_total"]), PROP, dict(keys, phase="resumed", n_total_changed=case.get("resume_n_total", case["n_total"]) != case["n_total"]))
                if getattr(s, "n_total", None) != case.get("resume_n_total", case["n_total"]):
                    w.violation(PROP, "O2.n_total", f"after run(n_total={case.get('resume_n_total', case['n_total'])}, resume_state_path=...) the sampler reports n_total={getattr(s, 'n_total', None)}", **keys)
                d = oracles.diff_state(snap, s.state, prefix_only=rm.len_k)
                if d:
                    w.violation(PROP, "O2.prefix_changed", "; ".join(d[:3]), **keys)
                if len(s.state._history["beta"]) < rm.len_k:
                    w.violation(PROP, "O2.history_length", f"history shorter than restored prefix", **keys)
            out["iters"] = inc.n_commits
    finally:
        w.monitors.remove(rm)
        w.monitors.remove(cap)
    if out.get("crashed_again") and depth == 0:
        w.bump("fault.fired.second_crash")
        verify_files(w, mon, "crash", dict(keys, second_crash=True, fault="crash.machine" if (keys.get("fault") == "crash.machine" or second_fault["kind"] == "crash.machine") else "crash.process"), inflight_ok=True)
        cks = [p for p in w.fs.files("/simfs/out") if (p in mon.acked or p in mon.pending) and not (p.endswith("sm.state") or p.endswith("sm.pkl"))]
        if cks and not w.violations:
            best = max(cks, key=lambda p: (mon.pending.get(p) or mon.acked[p][-1]).get("iter") or 0)
            out["second_resume"] = resume_from(w, mon, best, case, dict(keys, second_crash=True), depth=1)
    return out


def resolve_fault(f, windows, log, rnd):
    """Relative fault position -> absolute syscall index (+ byte offset)."""
    wins = [x for x in windows if x[2] is not None and x[2] > x[1]]
    if not wins:
        return None
    if f.get("where") == "after_window":
        win = wins[f.get("window", 0) % len(wins)]
        idx = win[2]
        if idx >= len(log):
            return None
    else:
        win = wins[f.get("window", 0) % len(wins)]
        idx = win[1] + f.get("op", 0) % (win[2] - win[1])
    kind, path, nbytes = log[idx][1], log[idx][2], log[idx][3]
    plan = dict(kind=f["kind"], cut_seed=f.get("cut_seed", 0))
    if "journal_frac" in f:
        plan["journal_frac"] = f["journal_frac"]
    if f["kind"] == "io.error":
        plan["errno"] = f.get("errno", 5)
    if kind == "write" and f.get("byte_frac") is not None:
        bf = f["byte_frac"]
        plan["byte"] = 0 if bf == 0 else nbytes - 1 if bf == 1 else 1 if bf == "one" else int(bf * nbytes)
    elif kind == "write" and f["kind"] == "io.error":
        plan["byte"] = nbytes // 2
    return idx, plan, (kind, win[0])


def point_class(kind, syscall, ordinal, byte, nbytes, win_label):
    bucket = "-" if byte is None else "0" if byte == 0 else "1" if byte == 1 else "last" if byte >= nbytes - 1 else "mid"
    final = "final" if "final" in win_label else "manual" if "manual" in win_label else "sm" if "sm.state" in win_label else "periodic"
    return f"{kind}@{syscall}#{ordinal}/{bucket}/{final}"


def run_one_fault(case, idx, plan, meta, do_resume):
    """Incarnation 0 with one fault, then verification (+ optional resume)."""
    mon = SaveSnap()
    w = World(case, monitors=[mon])
    keys = dict(arm=case["arm"], fault=plan["kind"], syscall=meta[0])
    first = _first_run(w, case, {idx: plan}, mon)
    fired = list(w.fs.fired)
    info = dict(fired=bool(fired), outcome="crash" if first["crashed"] else "exc" if first["exc"] else "completed")
    if plan["kind"].startswith("crash"):
        if not first["crashed"]:
            info["outcome"] = "fault_not_reached"
            return w, info
        v = verify_files(w, mon, "crash", keys, inflight_ok=True)
        info.update(v)
        if do_resume:
            cks = [p for p in w.fs.files("/simfs/out") if p in mon.acked or p in mon.pending]
            cks = [p for p in cks if not (p.endswith("sm.state") or p.endswith("sm.pkl"))]
            if cks:
                best = max(cks, key=lambda p: (mon.pending.get(p) or mon.acked[p][-1]).get("iter") or 0)
                if not w.violations:
                    info["resume"] = resume_from(w, mon, best, case, keys, second_fault=case.get("second_fault"))
    else:  # io.error
        s = first["sampler"]
        if first["exc"] is None:
            info["outcome"] = "error_swallowed_or_not_reached"
        if mon.pool_detached:
            w.violation(PROP, "O4.pool_lost_after_failed_save", f"config.pool not re-attached after save of {mon.pool_detached[0]} failed", **keys)
        unacked = set(mon.pending)
        mon2_pending = dict(mon.pending)
        # acknowledged saves must still satisfy O1; un-acknowledged files are not judged
        for p in list(mon.pending):
            mon.pending.pop(p)
        v = verify_files(w, mon, "ioerr", keys, inflight_ok=False)
        info.update(v, unacked_partial_files=len(unacked))
        # the in-memory sampler must still be usable: save again (fault-free) and check O1 on it
        if s is not None and first["exc"] is not None and issubclass(first["exc"], OSError):
            w.monitors[:] = [mon]
            with w.incarnation() as inc:
                inc.register(s)
                try:
                    s.save_state("/simfs/out/after_error.state")
                except Exception as e:
                    w.violation(PROP, "O4.unusable_after_failed_save", f"save after a failed save raised {type(e).__name__}: {e}", **keys)
                    forget(e)
            if not w.violations:
                verify_files(w, mon, "ioerr", keys, inflight_ok=False)
    return w, info


def run_case(case):
    case = copy.deepcopy(case)
    rnd = random.Random(case["seed"] * 7919 + 13)
    stats, probes = {}, {}
    violations = []
    cls = set()
    keys0 = dict(arm=case["arm"])
    # ---- census twin (also the fault-free arm) -----------------------------------------
    mon = SaveSnap()
    w = World(case, monitors=[mon])
    first = _first_run(w, case, None, mon)
    digest = [w.rng_runs[0].digest() if w.rng_runs else None, len(first["log"]), json.dumps(first["windows"])]
    n_ck = sum(len(v) for v in mon.acked.values())
    stats["checkpoints_written"] = n_ck
    stats["syscalls"] = len(first["log"])
    nontrivial = n_ck > 0
    if first["exc"] is not None:
        if mon.save_errors:
            w.violation(PROP, "O4.save_raises", f"save raised in a fault-free run: {mon.save_errors[0][1]} [{cfg_class(case)}]",
                        arm=case["arm"], exc=first["exc"].__name__, pool=case.get("eval") in ("pool", "poolint"), stderr=case.get("stderr") if case.get("progress") else None)
        else:
            stats["census.unrelated_exception"] = 1
            stats.setdefault("unrelated", []).append(first["exc_s"][:100])
    if mon.pool_detached:
        w.violation(PROP, "O4.pool_lost", f"config.pool differs after save of {mon.pool_detached[0]}", **keys0)
    if first["completed"] and case.get("save_every"):
        # the checkpoints of a completed run sit under their documented names <output_dir>/<label>_<iteration>.state and <label>_final.state
        lab = case["cfg"].get("output_label", "ps")
        n_it = first["inc"].n_commits
        want = [f"/simfs/out/{lab}_{i}.state" for i in range(1, n_it) if i % int(case["save_every"]) == 0] + [f"/simfs/out/{lab}_final.state"]
        have = set(w.fs.files("/simfs/out"))
        missing = [p for p in want if p not in have]
        if missing:
            w.violation(PROP, "O1.documented_name_missing", f"after a completed run with save_every={case['save_every']} and output_label={lab!r} the checkpoint(s) {[m.split('/')[-1] for m in missing[:4]]} "
                        f"do not exist (files written: {sorted(x.split('/')[-1] for x in have)[:8]})", arm=case["arm"], dotted_label="." in lab)
    if case["arm"] == "faultfree" or first["exc"] is not None:
        v = verify_files(w, mon, "faultfree", keys0, inflight_ok=False)
        merge(stats, {"ff." + k: x for k, x in v.items()})
        if not w.violations and first["completed"]:
            oracles.run_postconditions(w, first["sampler"], case["n_total"], PROP, dict(keys0, phase="uninterrupted"))
            cks = sorted(p for p in mon.acked if not (p.endswith("sm.state") or p.endswith("sm.pkl")))
            choose = cks if len(cks) <= 3 else rnd.sample(cks, 3)
            for p in choose:
                r = resume_from(w, mon, p, case, dict(keys0, ck="final" if "final" in p else "periodic"))
                stats["ff.resumes"] = stats.get("ff.resumes", 0) + 1
                if r and r.get("done"):
                    stats["ff.resumes_completed"] = stats.get("ff.resumes_completed", 0) + 1
                if w.violations:
                    break
        cls.add(cfg_class(case) + "|faultfree")
        violations += w.violations
    elif not first["completed"]:
        stats["census.incomplete"] = 1
    else:
        violations += w.violations
        windows, log = first["windows"], first["log"]
        plans = []
        if case.get("enumerate"):
            for wi, win in enumerate(windows):
                if win[2] is None:
                    continue
                for op in range(win[2] - win[1]):
                    idx = win[1] + op
                    kind, _, nbytes = log[idx][1], log[idx][2], log[idx][3]
                    for fk in ("crash.process", "crash.machine"):
                        bfs = [None]
                        if kind == "write":
                            bfs = [0, "one", 1, round(rnd.random(), 3)]
                        for bf in bfs:
                            plans.append(dict(kind=fk, window=wi, op=op, byte_frac=bf, cut_seed=rnd.randrange(1 << 30)))
            cap = case.get("enumerate_cap", 200)
            if len(plans) > cap:
                stats["enumeration.truncated"] = 1
                plans = [plans[i] for i in sorted(rnd.sample(range(len(plans)), cap))]
            else:
                stats["enumeration.complete_cases"] = 1
        else:
            plans = list(case.get("faults", []))
        for f in plans:
            rf = resolve_fault(f, windows, log, rnd)
            if rf is None:
                stats["fault.unresolvable"] = stats.get("fault.unresolvable", 0) + 1
                continue
            idx, plan, meta = rf
            do_resume = (not case.get("enumerate")) or rnd.random() < 0.15
            w2, info = run_one_fault(case, idx, plan, meta, do_resume)
            stats["fault.configured." + plan["kind"]] = stats.get("fault.configured." + plan["kind"], 0) + 1
            if info["fired"]:
                stats["fault.fired." + plan["kind"]] = stats.get("fault.fired." + plan["kind"], 0) + 1
                fr = w2.fs.fired[0]
                cls.add(cfg_class(case) + "|" + point_class(plan["kind"], fr["syscall"], idx - [x for x in windows if x[1] <= idx][-1][1], fr.get("byte"), fr.get("of", 0), meta[1]))
                if fr.get("syscall") == "close" or (fr.get("syscall") == "write" and fr.get("idx") is not None):
                    pass
            for k in ("matched_prev", "matched_inflight", "absent", "checked", "unacked_partial_files"):
                if info.get(k):
                    stats["post." + k] = stats.get("post." + k, 0) + info[k]
            if info.get("resume"):
                stats["crash.resumes"] = stats.get("crash.resumes", 0) + 1
                if info["resume"].get("done"):
                    stats["crash.resumes_completed"] = stats.get("crash.resumes_completed", 0) + 1
            stats["outcome." + info["outcome"]] = stats.get("outcome." + info["outcome"], 0) + 1
            for v in w2.violations:
                v = dict(v)
                v["fault"] = dict(f)
                rc = {k: x for k, x in case.items() if k not in ("enumerate", "enumerate_cap", "faults")}
                rc["faults"] = [dict(f)]
                v["repro_case"] = rc
                violations.append(v)
            merge(stats, w2.stats)
            if w2.escapes:
                raise RuntimeError("seam escape: " + "; ".join(w2.escapes))
            if violations and not case.get("enumerate_all"):
                break
    merge(stats, w.stats)
    if w.escapes:
        raise RuntimeError("seam escape: " + "; ".join(w.escapes))
    # small dumps that fit in the user-space buffer (reach probe)
    big_seen = {}
    for (i, kind, path, nb) in first["log"]:
        if kind == "write" and nb < 8192 and nb > 11:
            probes["small_dump_single_raw_write"] = probes.get("small_dump_single_raw_write", 0) + 1
        if kind == "write" and nb >= 65536:
            big_seen[path] = True
        elif kind == "write" and nb < 8192 and big_seen.get(path):
            probes["dump_tail_after_large_frame"] = probes.get("dump_tail_after_large_frame", 0) + 1
            big_seen[path] = False
    # a violation found with an enumerated fault becomes a directly replayable single-fault case
    for v in violations:
        if "fault" in v:
            v["detail"] += f" [fault={json.dumps(v['fault'], sort_keys=True)}]"
    sample = dict(arm=case["arm"], cfg_class=cfg_class(case), checkpoints=n_ck, save_windows=[(x[0], x[2] - x[1] if x[2] else None) for x in first["windows"]][:4],
                  syscalls_first_window=[(k, nb) for (_, k, _, nb) in first["log"][: (first["windows"][0][2] or 0) if first["windows"] else 0]],
                  stats={k: v for k, v in stats.items() if isinstance(v, int)})
    return dict(violations=violations, stats=stats, probes=probes, digest=json.dumps(digest), distinct_key=None,
                classes=sorted(cls), nontrivial=nontrivial, sample=sample)


def merge(dst, src):
    for k, v in (src or {}).items():
        if isinstance(v, (int, float)):
            dst[k] = dst.get(k, 0) + v
        elif isinstance(v, list):
            dst.setdefault(k, [])
            dst[k] += [e for e in v if e not in dst[k]][: 8 - len(dst[k])]


def base_case(rnd, seed, arm):
    blobs = rnd.choice([0, 0, 1, 2])
    tgt = gen.gen_target(rnd, kinds=("gauss", "bimodal", "expedge"), d=rnd.choice([1, 2, 2, 3]), blobs=blobs)
    cfg = gen.gen_cfg(rnd, tgt["d"], vv=False)
    # every case is executed several times here (census twin, faulted run, resumes, enumerations): keep the single execution cheap
    # (four thorough-tier cases with 500+ particles / 7 steps exceeded the per-case timeout)
    if cfg["n_particles"] >= 500:
        cfg["n_particles"] = 64
    if cfg.get("n_steps", 1) > 3:
        cfg["n_steps"] = 3
    if cfg.get("n_max_steps", 1) > 10:
        cfg["n_max_steps"] = 10
    ev = gen.gen_eval(rnd, blobs=bool(blobs))
    progress = rnd.random() < 0.35
    case = dict(arm=arm, seed=seed, target=tgt, cfg=cfg, n_total=rnd.choice([64, 96, 128, 192]), save_every=rnd.choice([1, 2, 3, 5]),
                progress=progress, stderr=rnd.choice(["stringio", "captured"]) if progress else "stringio",
                extra_saves=rnd.choice([[], [], ["manual"], ["manual", "manual_again"], ["sm"], ["manual", "sm"], ["sm", "sm2"]]))
    case.update(ev)
    if rnd.random() < 0.25:
        case["cfg"]["output_label"] = rnd.choice(["beta0.5", "run.v1", "a-b_c"])
    if rnd.random() < 0.3:
        case["resume_save_every"] = rnd.choice([1, 2, 3, 4])  # the resumed run may checkpoint on another cadence
    if rnd.random() < 0.35:
        # "resume and extend": the resumed run asks for a different number of effective samples
        case["resume_n_total"] = rnd.choice([case["n_total"] * 2, case["n_total"] * 4, max(32, case["n_total"] // 2)])
    if rnd.random() < 0.12:
        # large checkpoints: the pickled sampler exceeds pickle's 64 KiB frame limit, so the dump ends with a
        # small tail that sits in CPython's user-space buffer until flush/close (reach probe dump_tail_after_large_frame)
        case["target"] = gen.gen_target(rnd, kinds=("gauss",), d=6, blobs=0)
        case["cfg"].update(n_particles=128, clustering=False)
        case["cfg"].pop("n_max_steps", None)
        case.update(n_total=512, save_every=rnd.choice([2, 3]), eval="vector", big=True)
        case.pop("pool", None)
    return case


def cases(seed, tier):
    sch = Sched(seed)
    rnd = sch.stream("c08.cases")
    n_ff, n_crash, n_enum, n_io = (40, 120, 12, 40) if tier == "quick" else (1200, 8000, 200, 2000)
    out = []
    i = 0
    # canonical enumerated configurations first
    canon = [
        dict(eval="scalar", cfg=dict(n_particles=16, clustering=False, sample="tpcn", resample="mult", random_state=1), blobs=0, extra_saves=["manual", "sm"]),
        dict(eval="pool", pool=dict(workers=3), cfg=dict(n_particles=16, clustering=False, sample="rwm", resample="syst", random_state=2), blobs=1, extra_saves=[]),
        dict(eval="vector", cfg=dict(n_particles=32, clustering=True, sample="tpcn", resample="syst", random_state=3), blobs=0, extra_saves=["manual", "manual_again"]),
        dict(eval="poolint", pool=dict(workers=2), cfg=dict(n_particles=16, clustering=False, sample="tpcn", resample="mult", random_state=4), blobs=2, extra_saves=["sm"], progress=True, stderr="captured"),
    ]
    for k in range(n_enum):
        r = random.Random(sch.np_seed(f"enum{k}"))
        if k == len(canon):
            tgt = gen.gen_target(r, kinds=("gauss",), d=6, blobs=0)
            case = dict(arm="crash", seed=sch.np_seed(f"e{k}"), target=tgt, cfg=dict(n_particles=128, clustering=False, sample="rwm", resample="mult", random_state=5), n_total=512, save_every=2,
                        progress=False, stderr="stringio", extra_saves=[], eval="vector", big=True, enumerate_cap=60)
        elif k < len(canon):
            c = canon[k]
            tgt = gen.gen_target(r, kinds=("gauss",), d=2, blobs=c["blobs"])
            case = dict(arm="crash", seed=sch.np_seed(f"e{k}"), target=tgt, cfg=c["cfg"], n_total=64, save_every=[2, 1, 3, 2][k], progress=c.get("progress", False),
                        stderr=c.get("stderr", "stringio"), extra_saves=c["extra_saves"], eval=c["eval"])
            if "pool" in c:
                case["pool"] = c["pool"]
        else:
            case = base_case(r, sch.np_seed(f"e{k}"), "crash")
            case["n_total"] = min(case["n_total"], 96)
        case["enumerate"] = True
        out.append(case)
    for k in range(n_ff):
        r = random.Random(sch.np_seed(f"ff{k}"))
        case = base_case(r, sch.np_seed(f"f{k}"), "faultfree")
        if r.random() < 0.15:
            case["reconfig"] = dict(n_particles=case["cfg"]["n_particles"] * 2)
        out.append(case)
    for k in range(n_crash):
        r = random.Random(sch.np_seed(f"cr{k}"))
        case = base_case(r, sch.np_seed(f"c{k}"), "crash")
        where = r.choice(["in", "in", "after_window"])
        case["faults"] = [dict(kind=r.choice(["crash.process", "crash.machine"]), window=r.randrange(12), op=r.randrange(12), where=where,
                               byte_frac=r.choice([None, 0, "one", 1, round(r.random(), 3)]), cut_seed=r.randrange(1 << 30))]
        if r.random() < 0.3:
            # fault sequence of length two: the resumed incarnation dies as well (absolute syscall index: the first ~6 saves of the resumed run)
            case["second_fault"] = dict(kind=r.choice(["crash.process", "crash.machine"]), at=r.randrange(2, 40), cut_seed=r.randrange(1 << 30), byte=r.choice([None, 0, 1, 500]))
        out.append(case)
    for k in range(n_io):
        r = random.Random(sch.np_seed(f"io{k}"))
        case = base_case(r, sch.np_seed(f"i{k}"), "ioerr")
        case["faults"] = [dict(kind="io.error", window=r.randrange(12), op=r.randrange(12), errno=r.choice([28, 5, 13, 1]))]
        if r.random() < 0.4:
            # the failing save is a re-save over a checkpoint that an earlier save acknowledged (window -1 = the last save of the run)
            case["extra_saves"] = ["manual", "manual_again"]
            case["faults"][0]["window"] = -1
        out.append(case)
    return out


def shrink(case):
    c = case
    if c.get("enumerate") and c.get("_last_fault"):
        pass
    def mod(**kw):
        d = copy.deepcopy(c)
        for k, v in kw.items():
            if v is None and k in d:
                d.pop(k)
            else:
                d[k] = v
        return d
    if c.get("extra_saves"):
        yield mod(extra_saves=[])
    if c.get("progress"):
        yield mod(progress=False, stderr="stringio")
    if c.get("eval") != "scalar":
        yield mod(eval="scalar", pool=None)
    if c["target"].get("blobs"):
        t = copy.deepcopy(c["target"]); t.pop("blobs")
        yield mod(target=t)
    if c["cfg"].get("clustering"):
        yield mod(cfg=dict(c["cfg"], clustering=False))
    if c["n_total"] > 32:
        yield mod(n_total=max(32, c["n_total"] // 2))
    if c.get("save_every", 1) != 1:
        yield mod(save_every=1)
    if c["target"]["d"] > 1 and c["target"].get("kind") == "gauss":
        import tsim.targets as T
        yield mod(target=dict(T.spec_gauss(d=1), kind="gauss"))
    for f in c.get("faults", [])[:1]:
        if f["kind"] == "crash.machine":
            yield mod(faults=[dict(f, kind="crash.process")])
        if f.get("byte_frac") not in (None, 0):
            yield mod(faults=[dict(f, byte_frac=0)])
    if c.get("reconfig"):
        yield mod(reconfig=None)
    if c.get("resume_n_total"):
        yield mod(resume_n_total=None)
    if c.get("second_fault"):
        yield mod(second_fault=None)
    if c.get("resume_save_every"):
        yield mod(resume_save_every=None)


def evidence(results, cases_, tier):
    cls = set()
    for r in results:
        cls.update(r.get("classes", []))
    return dict(
        distinct_crash_point_classes=len(cls),
        crash_point_classes_sample=sorted(cls)[:25],
        arms=dict((a, sum(1 for c in cases_ if c["arm"] == a and not c.get("enumerate"))) for a in ("faultfree", "crash", "ioerr")) | dict(enumerate=sum(1 for c in cases_ if c.get("enumerate"))),
        exhaustive=False,
    )
