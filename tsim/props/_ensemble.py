"""Ensemble engine shared by C01 and C02: many independent seeded world runs of one
(target, config, fault arm) cell at two particle counts, persistent-bias decision rule."""
import copy
import json
import math
import random

import numpy as np

from .. import scenario, targets as T
from ..sched import Sched

Z = 6.0
DELTA = dict(mean=0.03, var=0.03, cdf=0.01, mass=0.01, logz=0.03)


def cell_target(kind):
    if kind == "corr":
        return dict(T.spec_corr(rho=0.7, sig=0.06), kind="corr"), {}
    if kind == "gauss":
        return dict(T.spec_gauss(d=2, mu=0.2, sig=0.12), kind="gauss"), {}
    if kind == "bimodal":
        return dict(T.spec_bimodal(d=2, w1=0.3, sep=1.0, sig=0.08), kind="bimodal"), {}
    if kind == "bimodal_far":  # narrow, far-apart modes: one global mode fits badly (low tpCN acceptance, step sizes adapt)
        return dict(T.spec_bimodal(d=2, w1=0.3, sep=1.2, sig=0.035), kind="bimodal"), {}
    if kind == "expedge":
        return dict(T.spec_expedge(d=2, lam=6.0), kind="expedge"), {}
    if kind == "halfgauss_hard":
        return dict(T.spec_halfgauss(d=2, sig=0.25), kind="halfgauss"), {}
    if kind == "halfgauss_reflective":
        return dict(T.spec_halfgauss(d=2, sig=0.25), kind="halfgauss"), dict(reflective=[0])
    if kind == "vonmises_periodic":
        return dict(T.spec_vonmises(d=2, kappa=3.0, m=0.03), kind="vonmises"), dict(periodic=[0])
    if kind == "hole":
        return dict(T.spec_hole(d=2, f=0.5, mu=0.2, sig=0.15), kind="hole"), {}
    if kind.startswith("hole:"):  # "hole:<f>": zero likelihood on a prior mass 1-f
        return dict(T.spec_hole(d=2, f=float(kind.split(":")[1]), mu=0.1, sig=0.15), kind="hole"), {}
    raise ValueError(kind)


def make_run_case(cell, N, rep, seed):
    tgt, bcfg = cell_target(cell["target"])
    cfg = dict(n_particles=N, sample=cell["kernel"], resample=cell["resample"], clustering=cell["clustering"], random_state=None)
    if cell.get("vv"):
        cfg["volume_variation"] = cell["vv"]
    if cell.get("ess_ratio"):
        cfg["ess_ratio"] = cell["ess_ratio"]
    if cell.get("n_steps"):
        cfg["n_steps"] = cell["n_steps"]
    cfg.update(bcfg)
    case = dict(kind="run", cell=cell, N=N, rep=rep, seed=seed, target=tgt, cfg=cfg, n_total=8 * N, scenario="plain", eval="scalar")
    arm = cell.get("arm", "faultfree")
    r = random.Random(seed)
    if arm == "crash_resume":
        case.update(scenario="crash_resume", save_every=2, like_fault=dict(kind="crash.process", batch=r.randrange(4, 30)))
    elif arm == "resume_reconfig":
        # crash, then resume with another particle count: the stored history holds batches of unequal size
        case.update(scenario="crash_resume", save_every=2, like_fault=dict(kind="crash.process", batch=r.randrange(4, 16)), reconfig=dict(n_particles=max(8, int(N * cell.get("factor", 2)))))  # one direction per cell: opposite directions give errors of opposite sign
    elif arm == "warm_reconfig":
        # the process dies during the prior-sampling phase; the resumed sampler uses another batch size (unequal batches in one history)
        case.update(scenario="crash_resume", save_every=1, like_fault=dict(kind="crash.process", batch=r.randrange(2, 4)), reconfig=dict(n_particles=N * r.choice([2, 3])))
    elif arm == "pool":
        case.update(eval="pool", pool=dict(workers=r.choice([2, 3, 7])))
    elif arm == "vector":
        case.update(eval="vector")
    return case


def estimands(case, w, info):
    s = info.get("sampler")
    if not info["completed"] or s is None:
        return None
    tgt = w.target
    tr = tgt.truth()
    out = {}
    lo, hi = tgt.lo[0], tgt.support_hi()[0]
    grid = np.linspace(lo, hi, 2001)
    cg = np.array([tr["cdf"](0, g) for g in grid])
    # primary: all weighted samples (no trimming); "@trim": what posterior() returns with its defaults
    for suffix, kw in (("", dict(trim_importance_weights=False)), ("@trim", {})):
        x, wts, logl = s.posterior(**kw)
        for i in range(tgt.d):
            m = float(np.sum(wts * x[:, i]))
            v = float(np.sum(wts * (x[:, i] - m) ** 2))
            out[f"mean{i}{suffix}"] = (m - tr["mean"][i]) / math.sqrt(tr["var"][i])
            out[f"var{i}{suffix}"] = v / tr["var"][i] - 1.0
        # CDF of coordinate 0 at 5 fixed points (quantile levels found numerically from the truth)
        for q in (0.1, 0.3, 0.5, 0.7, 0.9):
            xq = float(np.interp(q, cg, grid))
            pq = tr["cdf"](0, xq)
            out[f"cdf{q}{suffix}"] = float(np.sum(wts[x[:, 0] <= xq])) - pq
        if "masses" in tr and len(tr["masses"]) == 2:
            out[f"mass0{suffix}"] = float(np.sum(wts[x[:, 0] < 0.0])) - tr["masses"][0]
    out["logz"] = float(s.evidence()[0]) - tr["logz"]
    return out


def run_single(case):
    w, info = scenario.execute(case, [])
    est = estimands(case, w, info)
    stats = dict(w.stats)
    stats["runs"] = 1
    if info["crashed"]:
        stats["fault.fired.crash.process"] = 1
    if info["resumed"]:
        stats["resumed_from_checkpoint"] = 1
    if est is None:
        stats["run_failed"] = 1
        stats["exceptions"] = [str(info.get("exc") or info.get("hang"))[:100]]
    return dict(violations=[], stats=stats, probes=dict(w.probes), digest=json.dumps([r.digest() for r in w.rng_runs]), distinct_key=None, nontrivial=est is not None,
                est=est, cellid=json.dumps(case["cell"], sort_keys=True), N=case["N"])


def kind_of(name):
    for k in ("mean", "var", "cdf", "mass", "logz"):
        if name.startswith(k):
            return k
    return "mean"


def decide(cell, by_n, which, prop):
    """by_n: {N: [est dict,...]} for the two sizes; which: predicate on estimand name."""
    sizes = sorted(by_n)
    n1, n4 = sizes[0], sizes[-1]
    viol, table = [], {}
    names = sorted({k for e in by_n[n4] for k in e if which(k)})
    for name in names:
        a = np.array([e[name] for e in by_n[n1] if name in e])
        b = np.array([e[name] for e in by_n[n4] if name in e])
        if len(a) < 8 or len(b) < 8:
            continue
        bN, seN = float(a.mean()), float(a.std(ddof=1) / math.sqrt(len(a)))
        b4, se4 = float(b.mean()), float(b.std(ddof=1) / math.sqrt(len(b)))
        table[name] = dict(bias_N=round(bN, 4), se_N=round(seN, 4), bias_4N=round(b4, 4), se_4N=round(se4, 4))
        delta = DELTA[kind_of(name)]
        # the standard errors are estimated from R replicates: use the Student-t quantile that corresponds to z = 6
        from scipy import stats as _st

        z1 = float(_st.t.isf(_st.norm.sf(Z), max(len(b) - 1, 2)))
        c1 = abs(b4) - delta > z1 * se4
        # clause 2 separates a persistent bias from a legitimate O(1/N) one (for which |b4|-0.6|bN| is negative whatever the noise level);
        # the family-wise false-alarm control is clause 1 at z=6, so clause 2 can use z=3 and keep twice the power
        c2 = abs(b4) - 0.6 * abs(bN) > 3.0 * math.sqrt(se4 ** 2 + 0.36 * seN ** 2)
        if c1 and c2:
            btype = "periodic" if "periodic" in cell["target"] else "reflective" if "reflective" in cell["target"] else "hard"
            viol.append(dict(property=prop, oracle="persistent_bias", detail=f"cell {json.dumps(cell, sort_keys=True)}: estimand {name} has mean error {bN:+.4f}+-{seN:.4f} at N={n1} and {b4:+.4f}+-{se4:.4f} at N={n4} "
                             f"(allowance {delta}, R={len(b)}): significant and not shrinking with the particle count", keys=dict(kernel=cell["kernel"], boundary=btype, clustering=bool(cell["clustering"]), estimand=kind_of(name), arm=cell.get("arm", "faultfree"), target=cell["target"], trimmed=name.endswith("@trim"), metric="vv" if cell.get("vv") else "ess")))
    return viol, table


def aggregate(results, cases_, which, prop, R_min=8):
    cells = {}
    for r, c in zip(results, cases_):
        if c.get("kind") != "run" or r.get("est") is None:
            continue
        cells.setdefault(r["cellid"], {}).setdefault(r["N"], []).append(r["est"])
    viol, tables = [], {}
    for cid, by_n in sorted(cells.items()):
        if len(by_n) < 2:
            continue
        cell = json.loads(cid)
        v, t = decide(cell, by_n, which, prop)
        tables[cid] = t
        seeds = [c["seed"] for c in cases_ if c.get("kind") == "run" and json.dumps(c["cell"], sort_keys=True) == cid]
        sizes = sorted(by_n)
        for x in v:
            x["repro_case"] = dict(kind="cell", cell=cell, sizes=sizes, seeds=seeds, R=len(seeds) // 2, which=prop)
        viol += v
    return viol, tables


def cell_cases(cell, sizes, R, sch, tag):
    out = []
    for N in sizes:
        for k in range(R):
            out.append(make_run_case(cell, N, k, sch.np_seed(f"{tag}.{json.dumps(cell, sort_keys=True)}.{N}.{k}") % (2**31)))
    return out


def replay_cell(case, module, which, prop):
    """Replay form of an ensemble violation: re-run every replicate of the cell and apply the rule."""
    from .. import harness

    cell = case["cell"]
    sizes = case["sizes"]
    R = case["R"]
    runs = []
    i = 0
    for N in sizes:
        for k in range(R):
            runs.append(make_run_case(cell, N, k, case["seeds"][i]))
            i += 1
    res = harness.run_cases(module, runs)
    by_n = {}
    for r in res:
        if r.get("error"):
            raise RuntimeError(r["error"])
        if r.get("est") is not None:
            by_n.setdefault(r["N"], []).append(r["est"])
    v, t = decide(cell, by_n, which, prop)
    return dict(violations=v, stats=dict(runs=len(runs)), probes={}, digest=json.dumps(t, sort_keys=True), distinct_key=None, nontrivial=True, sample=dict(cell=cell, table=t))
