"""C18 - invalid configurations are rejected up front; valid ones always run (covering arrays under the simulator)."""
import copy
import itertools
import json
import random

import numpy as np

from .. import scenario, targets as T
from ..monitors import CoherenceMon
from ..oracles import run_postconditions
from ..sched import Sched
from ..world import World, forget
from . import _worldprop as wp

PROP = "C18"
LEVEL = "exploration"
RULE = ("invalid arm: one documented constraint violated at a time -> the constructor must raise before any likelihood/prior-transform call (instrumented counters); valid arm: seeded "
        "t-wise covering array (t=2 quick, t=3 thorough) over kernel x resampler x clustering x normalize x cluster_every x n_max_clusters x split_threshold x metric x n_steps x n_max_steps x "
        "{scalar,vectorised,blobs} x boundary x pool {None,SimPool,1,4} x save_every x d x N x target, every row run to completion on several seeds under the simulator with the run "
        "postconditions as oracle and iteration/redraw watchdogs for liveness; distinct = covering-array rows + invalid factors; non-trivial = the row ran at least 3 iterations")
ASSUMPTIONS = ["option values are the defaults and the ranges the documentation shows (listed in coverage.factor_table)", "pool and save_every rows are hermetic because the simulator owns the pool and the file system"]

FACTORS = dict(
    sample=["tpcn", "rwm"],
    resample=["mult", "syst"],
    clustering=[True, False],
    normalize=[True, False],
    cluster_every=[1, 2, 3, 5, 50],
    n_max_clusters=[None, 1, 2, 4],
    split_threshold=[0.5, 1.0, 2.0],
    metric=["ess", "vv0.1", "vv0.25", "vv1.0"],
    n_steps=[None, 1, 3],
    n_max_steps=[None, 1, 10],
    evalmode=["scalar", "vector", "blobs"],
    boundary=["none", "periodic", "reflective", "mixed", "empty_lists"],
    pool=[None, "simpool", 1, 4],
    save_every=[None, 1, 3, 1000],
    ess_ratio=[0.5, 2.0, 8.0],
    output_label=[None, "run-1"],
    d=[1, 2, 4],
    N=["default", 16, 64],
    target=["gauss", "bimodal", "expedge", "minor_mode"],
)
NAMES = list(FACTORS)


def covering_array(rnd, t):
    """Greedy seeded t-wise covering array over FACTORS (AETG-style)."""
    combos = {}
    for idx in itertools.combinations(range(len(NAMES)), t):
        for vals in itertools.product(*[range(len(FACTORS[NAMES[i]])) for i in idx]):
            combos[(idx, vals)] = True
    rows = []
    while combos:
        best, best_gain = None, -1
        for _ in range(30):
            # seed a candidate with one uncovered combination, fill the rest at random
            (idx, vals) = rnd.choice(list(combos)) if len(combos) < 2000 else next(iter(combos))
            row = [rnd.randrange(len(FACTORS[n])) for n in NAMES]
            for i, v in zip(idx, vals):
                row[i] = v
            gain = sum(1 for c in itertools.combinations(range(len(NAMES)), t) if (c, tuple(row[i] for i in c)) in combos)
            if gain > best_gain:
                best, best_gain = row, gain
        for c in itertools.combinations(range(len(NAMES)), t):
            combos.pop((c, tuple(best[i] for i in c)), None)
        rows.append({n: FACTORS[n][best[i]] for i, n in enumerate(NAMES)})
    return rows


def row_to_case(row, seed):
    d = row["d"]
    kind = row["target"]
    if kind == "gauss":
        tgt = T.spec_gauss(d=d, mu=0.2, sig=0.15)
    elif kind == "bimodal":
        tgt = T.spec_bimodal(d=d)
    elif kind == "minor_mode":
        # narrow dominant mode + broad 2% mode: clusters with very skewed weights
        tgt = dict(d=d, lo=[-1.0] * d, hi=[1.0] * d, comps=[dict(w=0.02, factors=[["gauss", -0.5, 0.2]] + [["gauss", 0.0, 0.2]] * (d - 1)),
                                                            dict(w=0.98, factors=[["gauss", 0.4, 0.02]] + [["gauss", 0.1, 0.02]] * (d - 1))])
    else:
        tgt = T.spec_expedge(d=d)
    tgt["kind"] = kind
    if row["evalmode"] == "blobs":
        tgt["blobs"] = 1
    cfg = dict(sample=row["sample"], resample=row["resample"], clustering=row["clustering"], normalize=row["normalize"], cluster_every=row["cluster_every"],
               n_max_clusters=row["n_max_clusters"], split_threshold=row["split_threshold"], random_state=seed % 1000)
    cfg["ess_ratio"] = row.get("ess_ratio", 2.0)
    if row.get("output_label"):
        cfg["output_label"] = row["output_label"]
    if row["metric"] != "ess":
        cfg["volume_variation"] = float(row["metric"][2:])
    if row["n_steps"] is not None:
        cfg["n_steps"] = row["n_steps"]
    if row["n_max_steps"] is not None:
        cfg["n_max_steps"] = row["n_max_steps"]
    if row["N"] != "default":
        cfg["n_particles"] = row["N"]
    b = row["boundary"]
    if b == "empty_lists":
        cfg["periodic"], cfg["reflective"] = [], []
    elif b == "periodic":
        cfg["periodic"] = [0]
    elif b == "reflective":
        cfg["reflective"] = [d - 1]
    elif b == "mixed" and d >= 2:
        cfg["periodic"] = [0]
        cfg["reflective"] = [1]
    elif b == "mixed":
        cfg["reflective"] = [0]
    case = dict(seed=seed, target=tgt, cfg=cfg, n_total=64, scenario="plain", row=row)
    case["eval"] = "vector" if row["evalmode"] == "vector" else "scalar"
    if row["pool"] == "simpool":
        case["eval"] = "pool" if case["eval"] == "scalar" else case["eval"]
        case["pool"] = dict(workers=3)
        if case["eval"] == "vector":
            case["vector_with_pool"] = True
    elif row["pool"] in (1, 4):
        if case["eval"] == "scalar":
            case["eval"] = "poolint"
            case["pool"] = dict(workers=row["pool"])
    if row["save_every"] is not None:
        case["save_every"] = row["save_every"]
    return case


INVALID = [
    ("n_dim=0", dict(n_dim=0)), ("n_dim=-1", dict(n_dim=-1)), ("n_dim=2.5", dict(n_dim=2.5)), ("n_dim='2'", dict(n_dim="2")),
    ("n_particles=0", dict(n_particles=0)), ("n_particles=-3", dict(n_particles=-3)), ("n_particles=2.5", dict(n_particles=2.5)),
    ("ess_ratio=0", dict(ess_ratio=0)), ("ess_ratio=-1.0", dict(ess_ratio=-1.0)),
    ("volume_variation=0", dict(volume_variation=0)), ("volume_variation=-0.5", dict(volume_variation=-0.5)),
    ("sample='hmc'", dict(sample="hmc")), ("resample='xyz'", dict(resample="xyz")),
    ("vectorize+blobs", dict(vectorize=True, blobs_dtype="float64")),
    ("periodic&reflective overlap", dict(periodic=[0], reflective=[0])),
    ("periodic index = n_dim", dict(periodic=[2])), ("periodic index -1", dict(periodic=[-1])), ("reflective index = n_dim", dict(reflective=[2])),
    ("reflective index 1.0", dict(reflective=[1.0])),
    # invalid value of one option next to a valid value of a related option (validation must not depend on the other option being unset)
    ("periodic=[0] with reflective index = n_dim", dict(periodic=[0], reflective=[2])), ("periodic=[0] with reflective index -1", dict(periodic=[0], reflective=[-1])),
    ("periodic=[0] with reflective index 1.5", dict(periodic=[0], reflective=[1.5])), ("reflective=[1] with periodic index = n_dim", dict(reflective=[1], periodic=[2])),
    ("reflective=[1] with periodic index -2", dict(reflective=[1], periodic=[-2])),
    ("ess_ratio=0 with volume_variation set", dict(ess_ratio=0, volume_variation=0.5)), ("volume_variation=-1 with ess_ratio=3", dict(volume_variation=-1.0, ess_ratio=3.0)),
    ("n_particles=0 with clustering off", dict(n_particles=0, clustering=False)), ("sample='hmc' with resample='syst'", dict(sample="hmc", resample="syst")),
    ("resample='xyz' with sample='rwm'", dict(resample="xyz", sample="rwm")), ("vectorize+blobs with pool", dict(vectorize=True, blobs_dtype="float64", pool=2)),
    ("n_dim=0 with n_particles=8", dict(n_dim=0, n_particles=8)), ("periodic index = n_dim with reflective=[]", dict(periodic=[2], reflective=[])),
    # the same invalid values arriving as NumPy scalars (what arithmetic on arrays hands back): np.float64(16.5) is not an int either
    ("n_particles=np.float64(16.5)", dict(n_particles=np.float64(16.5))), ("n_particles=np.float32(24.25)", dict(n_particles=np.float32(24.25))), ("n_dim=np.float64(2.5)", dict(n_dim=np.float64(2.5))),
    ("n_particles=np.int64(0)", dict(n_particles=np.int64(0))), ("n_dim=np.int64(-1)", dict(n_dim=np.int64(-1))),
    ("ess_ratio=np.float64(0)", dict(ess_ratio=np.float64(0.0))), ("ess_ratio=np.float64(-1)", dict(ess_ratio=np.float64(-1.0))), ("volume_variation=np.float64(-0.5)", dict(volume_variation=np.float64(-0.5))),
    ("periodic index np.int64(2) = n_dim", dict(periodic=[np.int64(2)])), ("reflective index np.float64(1.5)", dict(reflective=[np.float64(1.5)])),
]


def run_invalid(case):
    from tempest import Sampler

    name, over = INVALID[case["invalid"]]
    w = World(dict(seed=case["seed"], target=dict(T.spec_gauss(d=2), kind="gauss")))
    viol = []
    with w.incarnation() as inc:
        kw = inc.sampler_kwargs()
        kw.update(over)
        try:
            s = Sampler(**kw)
            accepted = True
        except Exception as e:
            accepted = False
            forget(e)
        t = w.target
        if accepted:
            viol.append(dict(property=PROP, oracle="invalid.accepted", detail=f"Sampler({name}) was constructed without error", keys=dict(factor=name)))
        elif t.n_points or t.n_tf:
            viol.append(dict(property=PROP, oracle="invalid.late_rejection", detail=f"Sampler({name}) was rejected only after {t.n_points} likelihood / {t.n_tf} prior-transform call(s)", keys=dict(factor=name)))
    return dict(violations=viol, stats={"invalid_checked": 1}, probes={}, digest=json.dumps([name, bool(viol)]), distinct_key="invalid:" + name, nontrivial=True,
                sample=dict(invalid=name))


def run_case(case):
    if "invalid" in case:
        return run_invalid(case)
    out, w, info = wp.run_with(case, [])
    s = info.get("sampler")
    row = case.get("row", {})
    keys = dict(clustering=bool(case["cfg"].get("clustering")))
    if info.get("hang"):
        out["violations"].append(dict(property=PROP, oracle="valid.no_termination", detail=f"valid configuration did not terminate: {info['hang']} [{json.dumps(row, sort_keys=True)}]", keys=keys))
    elif info.get("exc"):
        tiny = case["cfg"].get("n_particles", 2 * case["target"]["d"]) <= 2 * case["target"]["d"]
        out["violations"].append(dict(property=PROP, oracle="valid.raises", detail=f"valid configuration raised {info['exc']} at {info.get('exc_site')} [{json.dumps(row, sort_keys=True)}]",
                                      keys=dict(keys, exc=info.get("exc_type"), site=(info.get("exc_site") or "?").split(":")[0], default_n_particles=bool(tiny), arm=case.get("arm", "plain"))))
    elif info["completed"] and s is not None:
        run_postconditions(w, s, case["n_total"], PROP, keys)
        out["violations"] = list(w.violations)
    out["distinct_key"] = "row:" + json.dumps(row, sort_keys=True)
    out["sample"] = dict(row=row, iterations=sum(info["iters"]), completed=info["completed"])
    return out


_CACHE = {}


def cases(seed, tier):
    sch = Sched(seed)
    t, nseeds = (2, 5) if tier == "quick" else (3, 6)
    rows = covering_array(random.Random(sch.np_seed(f"c18.ca{t}")), t)
    out = [dict(invalid=i, seed=sch.np_seed(f"inv{i}")) for i in range(len(INVALID))]
    for ri, row in enumerate(rows):
        for k in range(nseeds):
            out.append(row_to_case(row, sch.np_seed(f"c18.{ri}.{k}")))
    # own arm: legal extreme outputs of the uniform generator (0.0, 1-2^-53) at a seeded ~3% of the draws
    for ri, row in enumerate(rows):
        c = row_to_case(row, sch.np_seed(f"c18x.{ri}"))
        c["rng_extreme"] = dict(rate=0.03, seed=sch.np_seed(f"c18xs.{ri}") % 100000)
        c["arm"] = "rng_extreme"
        out.append(c)
    return out


def shrink(case):
    if "invalid" in case:
        return
    for c in wp.generic_shrink(case):
        c = dict(c)
        c.pop("row", None)
        yield c
    cfg = case["cfg"]
    for k, v in (("cluster_every", 1), ("n_max_clusters", None), ("split_threshold", 1.0), ("normalize", True)):
        if cfg.get(k, v) != v:
            n = dict(cfg)
            if v is None:
                n.pop(k, None)
            else:
                n[k] = v
            yield dict(case, cfg=n)
    if case.get("save_every") is not None:
        c = dict(case)
        c.pop("save_every")
        yield c


def evidence(results, cases_, tier):
    rows = [c["row"] for c in cases_ if "row" in c]
    uniq = {json.dumps(r, sort_keys=True) for r in rows}
    t = 2 if tier == "quick" else 3
    need = set()
    got = set()
    for idx in itertools.combinations(range(len(NAMES)), t):
        for vals in itertools.product(*[FACTORS[NAMES[i]] for i in idx]):
            need.add((idx, tuple(map(str, vals))))
    for r in rows:
        for idx in itertools.combinations(range(len(NAMES)), t):
            got.add((idx, tuple(str(r[NAMES[i]]) for i in idx)))
    return dict(factor_table=FACTORS, covering_strength=t, covering_rows=len(uniq), t_tuples_required=len(need), t_tuples_covered=len(need & got), invalid_factors=[n for n, _ in INVALID])
