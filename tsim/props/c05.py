"""C05 - temperature schedule is monotone, bounded and ESS-controlled (world + monitors)."""
import json
import random

from ..monitors import ScheduleMon
from ..sched import Sched
from . import _worldprop as wp

PROP = "C05"
LEVEL = "exploration"
RULE = ("seeded sampler executions (target x config x eval mode x metric mode {ESS, volume-variation}) under crash->resume, reconfigured resume, "
        "re-run, zero-likelihood regions and extreme likelihood scales, plus constructed pools (checkpoints imported through SimFS whose ESS crossing sits at a chosen beta*: inside the "
        "(1-1e-4,1) termination window, right after beta_prev, mid-range) on which the real reweight stage is run once; every iteration's reweight stage is checked exactly against an independent "
        "extended-precision MIS reference; distinct = configuration/scenario class; non-trivial = at least 3 iterations executed")
ASSUMPTIONS = ["RefMIS (tsim/refmis.py) is the oracle for ESS/logZ/weights", "in volume-variation mode the ESS floor is judged only when the reference ESS curve on [beta_prev,1] is monotone (else counted inconclusive)"]


def cases(seed, tier):
    sch = Sched(seed)
    n = 480 if tier == "quick" else 24000
    out = []
    for k in range(n):
        r = random.Random(sch.np_seed(f"c05.{k}"))
        kinds = ("gauss", "bimodal", "expedge", "corr", "hole") if r.random() < 0.8 else ("gauss",)
        c = wp.std_case(r, sch.np_seed(f"s{k}"), kinds=kinds, scenarios=("plain", "plain", "crash_resume", "crash_resume", "rerun", "like_raise", "rewind"), blobs=(0,), evals=("scalar", "vector"))
        if r.random() < 0.2:
            # extreme likelihood scale: |log L| up to ~2e6 (kept 1-D and small so that the ~100 annealing iterations stay cheap)
            from .. import targets as T

            c["target"] = dict(T.spec_gauss(d=1, mu=round(r.uniform(-0.3, 0.3), 3), sig=r.choice([0.002, 0.0007])), kind="gauss")
            c["cfg"]["n_particles"] = r.choice([8, 16])
            c["cfg"].pop("periodic", None)
            c["cfg"].pop("reflective", None)
            c["n_total"] = 32
            c["extreme"] = True
        if r.random() < 0.5:
            c["cfg"]["volume_variation"] = r.choice([0.05, 0.1, 0.25, 1.0])
            if c["cfg"]["n_particles"] >= 500:
                c["cfg"]["volume_variation"] = max(c["cfg"]["volume_variation"], 0.25)  # large batches stay cheap (see std_case)
        out.append(c)
    for k in range(n // 4):
        r = random.Random(sch.np_seed(f"c05.con{k}"))
        star = r.choice([1 - 3e-5, 1 - 5e-5, 1 - 2e-5, 1 - 9e-5, 1 - 2e-4, 0.999, r.uniform(0.3, 0.99), r.uniform(0.3, 0.99)])
        ratio = r.choice([1.0, 1.0, 2.0])
        out.append(dict(constructed=True, seed=sch.np_seed(f"con{k}") % (2**31), d=r.choice([1, 2]), N=r.choice([16, 32, 64]), ess_ratio=ratio, T=int(ratio) + r.choice([1, 2, 3]),
                        spread=r.choice([1.0, 3.0, 10.0]), beta_star=star, vv=r.choice([None, None, None, 0.25])))
    return out


def run_constructed(case):
    """A constructed checkpoint (tsim/constructed.py) is imported through SimFS/load_state and the real reweight stage is run once on it."""
    from .. import constructed, targets as T
    from ..world import World

    built = constructed.build(case)
    if built is None:
        return dict(violations=[], stats=dict(constructed_unsuitable=1), probes={}, digest="unsuitable", distinct_key=None, nontrivial=False)
    blob, hist, target = built
    d, N, ratio, Tn = case["d"], case["N"], case["ess_ratio"], case["T"]
    mon = ScheduleMon(PROP)
    cfg = dict(n_particles=N, ess_ratio=ratio, clustering=False)
    if case.get("vv"):
        cfg["volume_variation"] = case["vv"]
    w = World(dict(seed=case["seed"], target=dict(T.spec_gauss(d=d), kind="gauss"), cfg=cfg), monitors=[mon])
    with w.incarnation() as inc:
        path = constructed.write(w, blob)
        s = inc.new_sampler()
        s.load_state(path)
        s._core.reweighter.run()
        beta_new = float(s.state._current["beta"])
    if w.escapes:
        raise RuntimeError("; ".join(w.escapes))
    if 1.0 - beta_new < 1e-4 and beta_new < 1.0:
        w.probe("constructed.last_step_inside_termination_window")
    return dict(violations=list(w.violations), stats=dict(constructed_pools=1, advances=mon.n_adv, stays=mon.n_stay), probes=dict(w.probes), digest=json.dumps([beta_new, len(w.violations)]),
                distinct_key=f"constructed/T{Tn}/N{N}/r{ratio}/b*{case['beta_star']:.6f}/vv{case.get('vv')}", nontrivial=True,
                sample=dict(kind="constructed pool", beta_star=case["beta_star"], beta_prev=hist["beta"][-1], beta_chosen=beta_new, target_ess=target))


def run_case(case):
    if case.get("constructed"):
        return run_constructed(case)
    mon = ScheduleMon(PROP)
    out, w, info = wp.run_with(case, [mon])
    out["stats"].update(advances=mon.n_adv, stays=mon.n_stay, vv_inconclusive=mon.n_inconclusive)
    out["sample"] = dict(cfg_class=out["distinct_key"], betas=[round(float(b), 5) for b in info["sampler"].state._history["beta"]][:40] if info.get("sampler") is not None else None, scenario=info["kind"])
    return out


def shrink(case):
    if case.get("constructed"):
        if case["T"] > 1:
            yield dict(case, T=1)
        if case.get("vv"):
            yield dict(case, vv=None)
        if case["d"] > 1:
            yield dict(case, d=1)
        return
    yield from wp.generic_shrink(case)
