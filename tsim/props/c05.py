"""C05 - temperature schedule is monotone, bounded and ESS-controlled (world + monitors)."""
import random

from ..monitors import ScheduleMon
from ..sched import Sched
from . import _worldprop as wp

PROP = "C05"
LEVEL = "exploration"
RULE = ("seeded sampler executions (target x config x eval mode x metric mode {ESS, volume-variation}) under crash->resume, reconfigured resume, "
        "re-run, zero-likelihood regions and extreme likelihood scales; every iteration's reweight stage is checked exactly against an independent "
        "extended-precision MIS reference; distinct = configuration/scenario class; non-trivial = at least 3 iterations executed")
ASSUMPTIONS = ["RefMIS (tsim/refmis.py) is the oracle for ESS/logZ/weights", "in volume-variation mode the ESS floor is judged only when the reference ESS curve on [beta_prev,1] is monotone (else counted inconclusive)"]


def cases(seed, tier):
    sch = Sched(seed)
    n = 480 if tier == "quick" else 40000
    out = []
    for k in range(n):
        r = random.Random(sch.np_seed(f"c05.{k}"))
        kinds = ("gauss", "bimodal", "expedge", "corr", "hole") if r.random() < 0.8 else ("gauss",)
        c = wp.std_case(r, sch.np_seed(f"s{k}"), kinds=kinds, scenarios=("plain", "plain", "crash_resume", "crash_resume", "rerun"), blobs=(0,), evals=("scalar", "vector"))
        if r.random() < 0.2:
            # extreme likelihood scale: |log L| up to ~2e6 (kept 1-D and small so that the ~100 annealing iterations stay cheap)
            from .. import targets as T

            c["target"] = dict(T.spec_gauss(d=1, mu=round(r.uniform(-0.3, 0.3), 3), sig=r.choice([0.002, 0.0007])), kind="gauss")
            c["cfg"]["n_particles"] = r.choice([8, 16])
            c["cfg"].pop("periodic", None)
            c["cfg"].pop("reflective", None)
            c["n_total"] = 32
            c["extreme"] = True
        if r.random() < 0.5:
            c["cfg"]["volume_variation"] = r.choice([0.05, 0.1, 0.25, 1.0])
        out.append(c)
    return out


def run_case(case):
    mon = ScheduleMon(PROP)
    out, w, info = wp.run_with(case, [mon])
    out["stats"].update(advances=mon.n_adv, stays=mon.n_stay, vv_inconclusive=mon.n_inconclusive)
    out["sample"] = dict(cfg_class=out["distinct_key"], betas=[round(float(b), 5) for b in info["sampler"].state._history["beta"]][:40] if info.get("sampler") is not None else None, scenario=info["kind"])
    return out


shrink = wp.generic_shrink
