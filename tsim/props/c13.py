"""C13 - likelihood evaluation strategy is transparent; calls are counted exactly.

Differential twins: one seed, one target, evaluated (A) scalar serially, (B) vectorised, (C) through a SimPool object
with seeded completion order / chunking / worker count, (D) pool=int (stubbed multiprocess.Pool factory).  The likelihood
is pointwise bit-identical across modes by construction, so per-iteration state digests, RNG event logs and evidence
must be bit-identical; `calls` must equal the target's own evaluation counter at every commit (also across a resume).
"""
import copy
import json
import random

import numpy as np

from .. import scenario
from ..monitors import CallsMon
from ..sched import Sched
from ..world import Monitor, state_digest
from . import _worldprop as wp

PROP = "C13"
LEVEL = "exploration"
RULE = ("twin groups: the same seeded execution under {scalar, vectorised, SimPool object (W in 1,2,3,7,16; seeded chunking and completion order; dill round trip), pool=int}; "
        "per-iteration digests of the whole state, the RNG-seam log and the evidence are compared bitwise with the serial twin, and calls is compared with the instrumented "
        "likelihood counter at every commit, including across crash->resume; a worker death must surface as an exception; distinct = (configuration class, pool completion-order digest); "
        "non-trivial = at least one pooled map was evaluated out of submission order")
ASSUMPTIONS = ["SimPool.map honours the ordering contract of multiprocess/MPI pools (results in submission order)", "real multiprocess workers are not exercised (stub)"]


class DigestMon(Monitor):
    def __init__(self):
        self.per_iter = []

    def after_commit(self, inc):
        st = inc.samplers[-1].state
        self.per_iter.append(state_digest(st))


def one(case, mode, pool=None):
    c = copy.deepcopy(case)
    c["eval"] = mode
    if mode == "vector" and case.get("vec_out"):
        c["target"]["vec_out"] = case["vec_out"]  # the vectorised twin returns a re-used output array (or a read-only view of it): still pointwise identical
    if pool is not None:
        c["pool"] = pool
    else:
        c.pop("pool", None)
    dm, cm = DigestMon(), CallsMon(PROP)
    w, info = scenario.execute(c, [dm, cm])
    s = info.get("sampler")
    ev = None
    if info["completed"] and s is not None:
        ev = float(s.evidence()[0])
    return dict(w=w, info=info, digests=dm.per_iter, rng=[r.digest() for r in w.rng_runs], rng_n=[r.n for r in w.rng_runs], ev=ev, calls_checked=cm.checked,
                orders=sorted(set().union(*[p.orders for inc_pools in [getattr(w, "_pools", [])] for p in inc_pools])) if False else None)


def run_case(case):
    rnd = random.Random(case["seed"] + 5)
    stats, probes, violations = {}, {}, []
    A = one(case, "scalar")
    violations += A["w"].violations
    modes = []
    if not case["target"].get("blobs"):
        modes.append(("vector", None))
    for o in range(case.get("n_orders", 1)):  # the same pooled execution under several scheduler-chosen completion orders
        modes.append(("pool", dict(workers=case["W"], death_at_map=case.get("death_at_map"), lazy=case.get("lazy"), order=o)))
    modes.append(("poolint", dict(workers=case["Wint"])))
    order_digests = set()
    for mode, pool in modes:
        if case.get("scenario") == "pool_death" and mode != "pool":
            continue
        c2 = case if mode == "pool" else {k: v for k, v in case.items() if k != "death_at_map"}
        c2 = dict(c2)
        if case.get("ret") and not case.get("with_args"):
            c2["ll_ret"] = case["ret"]  # the non-serial twin's likelihood returns numpy scalars / 1-element arrays
        if case.get("with_args"):
            c2["ll_args"] = True  # the non-serial twin receives its likelihood through log_likelihood_args / kwargs
        if case.get("scenario") == "pool_death" and mode == "pool":
            c2["scenario"] = "plain"
        B = one(c2, mode, pool)
        for k, v in B["w"].stats.items():
            if isinstance(v, int):
                stats[k] = stats.get(k, 0) + v
        violations += B["w"].violations
        order_digests |= B["w"].pool_orders
        keys = dict(mode=mode if mode != "poolint" else f"pool=int", workers=(pool or {}).get("workers") if mode == "poolint" else None)
        if case.get("scenario") == "pool_death":
            fired = B["w"].stats.get("pool.worker_death", 0)
            if fired:
                probes["pool.worker_death_fired"] = probes.get("pool.worker_death_fired", 0) + 1
                if B["info"].get("exc") != "WorkerDied":
                    violations.append(dict(property=PROP, oracle="pool.death_swallowed", detail=f"a worker died during map #{case['death_at_map']} but run() ended with {B['info'].get('exc') or 'success'}", keys=dict(mode="pool")))
            continue
        if B["info"].get("exc") and not A["info"].get("exc"):
            violations.append(dict(property=PROP, oracle="mode.raises", detail=f"eval mode {mode} (pool={pool}) raised {B['info']['exc']} where the serial twin ran to completion",
                                   keys=dict(keys, exc=B["info"].get("exc_type"))))
            continue
        if A["info"].get("exc") or A["info"].get("hang"):
            stats["twin.serial_did_not_complete"] = 1
            continue
        n = min(len(A["digests"]), len(B["digests"]))
        first = next((i for i in range(n) if A["digests"][i] != B["digests"][i]), None)
        if first is not None or len(A["digests"]) != len(B["digests"]):
            violations.append(dict(property=PROP, oracle="twin.state_diverged", detail=f"eval mode {mode} (pool={pool}): state differs from the serial twin at iteration {first if first is not None else n} (iterations {len(A['digests'])} vs {len(B['digests'])})", keys=keys))
        elif A["rng"] != B["rng"]:
            violations.append(dict(property=PROP, oracle="twin.rng_diverged", detail=f"eval mode {mode}: RNG-seam log differs from the serial twin (draw counts {A['rng_n']} vs {B['rng_n']})", keys=keys))
        elif A["ev"] != B["ev"]:
            violations.append(dict(property=PROP, oracle="twin.evidence", detail=f"eval mode {mode}: evidence {B['ev']!r} vs serial {A['ev']!r}", keys=keys))
        stats["twins_compared"] = stats.get("twins_compared", 0) + 1
    stats["calls_checks"] = A["calls_checked"]
    stats["iterations"] = len(A["digests"])
    stats["pool.distinct_completion_orders"] = len(order_digests)
    cc = scenario.cfg_class(case)
    return dict(violations=violations, stats=stats, probes=probes, digest=json.dumps([A["rng"], A["digests"][-1:] ]), classes=[cc + f"/W{case['W']}"] + [cc + "|order:" + o for o in sorted(order_digests)[:40]],
                nontrivial=stats.get("pool.reordered_maps", 0) > 0,
                sample=dict(cfg_class=scenario.cfg_class(case), W=case["W"], Wint=case["Wint"], iterations=len(A["digests"]), reordered_maps=stats.get("pool.reordered_maps", 0), pool_maps=stats.get("pool.maps", 0)))


def cases(seed, tier):
    sch = Sched(seed)
    n = 130 if tier == "quick" else 6000
    out = []
    for k in range(n):
        r = random.Random(sch.np_seed(f"c13.{k}"))
        c = wp.std_case(r, sch.np_seed(f"s{k}"), kinds=("gauss", "bimodal", "expedge", "hole"), scenarios=("plain", "plain", "plain", "crash_resume", "pool_death"), evals=("scalar",), blobs=(0, 0, 1, 2), boundaries=True)
        c.pop("pool", None)
        c["W"] = r.choice([1, 2, 3, 7, 16])
        c["Wint"] = r.choice([1, 2, 3, 4])
        if c["scenario"] == "pool_death":
            c["death_at_map"] = r.randrange(1, 25)
        c["n_orders"] = (2 if r.random() < 0.5 else 1) if tier == "quick" else r.choice([1, 2, 4, 8])
        c["ret"] = r.choice([None, None, "npfloat", "arr0"])
        c["lazy"] = r.random() < 0.3
        c["with_args"] = r.random() < 0.3
        c["vec_out"] = r.choice([None, None, "buffer", "readonly"])
        out.append(c)
    # batches far above (and not a multiple of) any block size an evaluation path might introduce; cheap: few iterations, simple kernel
    from .. import targets as T

    for k, N in enumerate([513, 600, 777, 1000, 1025, 2049] if tier == "quick" else [513, 600, 777, 1000, 1025, 2049, 1500, 4097, 3000, 5000] * 3):
        r = random.Random(sch.np_seed(f"c13.big{k}"))
        d = r.choice([1, 2])
        out.append(dict(seed=sch.np_seed(f"sb{k}"), target=dict(T.spec_gauss(d=d, mu=0.2, sig=round(r.uniform(0.1, 0.3), 3)), kind="gauss", **({"blobs": 1} if k % 3 == 2 else {})),
                        cfg=dict(n_particles=N, ess_ratio=1.0, sample=r.choice(["rwm", "tpcn"]), resample="mult", clustering=False, random_state=r.randrange(1000), n_steps=1, n_max_steps=2),
                        n_total=2 * N, scenario="plain", eval="scalar", W=r.choice([3, 16]), Wint=r.choice([2, 4]), n_orders=1, ret=None, lazy=False, with_args=False, big=True, vec_out=r.choice([None, "buffer"])))
    return out


def shrink(case):
    for c in wp.generic_shrink(case):
        yield c
    if case.get("W", 1) != 1:
        yield dict(case, W=1)
    if case.get("Wint", 2) not in (1, 2):
        yield dict(case, Wint=2)
