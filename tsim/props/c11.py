"""C11 - zero-likelihood prior regions are excluded and counted exactly once (exact band per warm-up iteration)."""
import random

from ..monitors import ZeroLikeMon
from ..sched import Sched
from . import _ensemble as E
from . import _worldprop as wp

PROP = "C11"
LEVEL = "exploration"
RULE = ("seeded sampler executions on targets with a zero-likelihood region of known prior mass f in {0.9,0.5,0.2,0.05} x ess_ratio in {1,2,4,8} (1..8 warm-up iterations); "
        "per beta=0 iteration the recorded logZ must lie in [log min_t f_t, log max_t f_t] of the per-batch finite fractions observed at the likelihood seam, and no -inf is "
        "ever stored; plus seeded ensembles (cells f in {0.5,0.2} x kernels x {uninterrupted, crash during the prior-sampling phase and resume with another batch size} x N,4N x R runs) "
        "whose final logZ error against the closed-form integral over the supported region is judged with the persistent-bias rule; distinct = configuration class; "
        "non-trivial = at least two warm-up batches contained -inf draws")
ASSUMPTIONS = ["any per-batch, pooled or averaged estimator of f lies inside the band; a per-iteration compounding one does not", "ensemble decision rule: persistent-bias rule of the C01/C02 engine (allowance 0.03 nats, z = 6 and not shrinking with N)"]
which = lambda name: name.startswith("logz")
CELLS = [dict(target="hole:0.5", kernel="tpcn", resample="mult", clustering=False, ess_ratio=4.0),
         dict(target="hole:0.2", kernel="rwm", resample="syst", clustering=False),
         dict(target="hole:0.5", kernel="tpcn", resample="mult", clustering=False, ess_ratio=4.0, arm="warm_reconfig"),
         dict(target="hole:0.2", kernel="rwm", resample="syst", clustering=False, ess_ratio=4.0, arm="warm_reconfig")]


def cases(seed, tier):
    sch = Sched(seed)
    n = 320 if tier == "quick" else 20000
    out = []
    for k in range(n):
        r = random.Random(sch.np_seed(f"c11.{k}"))
        c = wp.std_case(r, sch.np_seed(f"s{k}"), kinds=("hole",), scenarios=("plain", "plain", "plain", "crash_resume"), evals=("scalar", "vector", "pool"), vv=False)
        c["cfg"]["ess_ratio"] = r.choice([1.0, 2.0, 4.0, 8.0])
        c["cfg"]["n_particles"] = r.choice([16, 32, 64])
        if r.random() < 0.12:
            # stateful user model: every point of the first one or two prior batches has zero likelihood, afterwards the region is as specified
            # (often f=1 from then on), so a whole batch is redrawn and the batch finally kept may contain no -inf at all
            c["target"]["dead_first"] = c["cfg"]["n_particles"] * r.choice([1, 2])
            if r.random() < 0.6:
                c["target"]["cut"] = list(c["target"]["hi"])
            c["eval"] = r.choice(["scalar", "vector"])
            c.pop("pool", None)
            c["scenario"] = "plain"
            for k2 in ("like_fault", "save_every", "reconfig", "resume_n_total"):
                c.pop(k2, None)
        out.append(c)
    sizes, R = ((32, 128), 40) if tier == "quick" else ((64, 256), 80)
    for cell in CELLS:
        out += E.cell_cases(cell, sizes, R, sch, "c11")
    return out


def run_case(case):
    if case.get("kind") == "cell":
        import sys

        return E.replay_cell(case, sys.modules[__name__], which, PROP)
    if case.get("kind") == "run":
        r = E.run_single(case)
        r["sample"] = dict(cell=case["cell"], N=case["N"], logz_error=None if r["est"] is None else round(r["est"]["logz"], 4))
        r["distinct_key"] = r["cellid"] + f"/N{case['N']}"
        if r["stats"].get("resumed_from_checkpoint"):
            r["probes"]["ensemble_run_resumed_in_warmup_with_other_batch_size"] = 1
        return r
    mon = ZeroLikeMon(PROP)
    out, w, info = wp.run_with(case, [mon])
    out["stats"].update(warmup_iterations=mon.warm)
    out["nontrivial"] = len([x for x in mon.fhat if x < 1]) >= 2
    s = info.get("sampler")
    out["sample"] = dict(cfg_class=out["distinct_key"], f=case["target"]["cut"][0], fhat=[round(x, 3) for x in mon.fhat][:8],
                         logz_warm=[round(float(z), 4) for z, b in zip(s.state._history["logz"], s.state._history["beta"]) if b == 0.0][:8] if s is not None else None)
    if info["completed"] and s is not None:
        out["final"] = dict(logz=float(s.evidence()[0]), truth=w.target.truth()["logz"], n=case["cfg"]["n_particles"], f=case["target"]["cut"][0])
    return out


def aggregate(results, cases_):
    v, tables = E.aggregate(results, cases_, which, PROP)
    return v, dict(logz_bias_tables=tables)


def shrink(case):
    return iter(()) if case.get("kind") in ("run", "cell") else wp.generic_shrink(case)
