"""C02 - reported log-evidence is consistent and independent across seeded runs (ensemble engine + exact rnglog part)."""
import copy
import json
import random

from .. import scenario
from ..sched import Sched
from . import _ensemble as E
from . import c01

PROP = "C02"
LEVEL = "exploration"
RULE = ("statistical part: the C01 ensembles (cells x fault arms x N,4N x R seeded world runs) judged on log Z_hat - log Z with the persistent-bias rule (delta = 0.03 nats, z = 6), plus zero-"
        "likelihood-region cells; exact part (rnglog): for runs with different seeds and for different iterations of one run the sets of 64-bit draw values recorded at the RNG seam must be "
        "disjoint (shared innovations are a sufficient cause of dependent errors), also across crash->resume; evaluations = simulated runs; distinct = cells x particle counts + rnglog groups")
ASSUMPTIONS = ["statistical oracle (weak fit): decides a persistent evidence offset above 0.03 nats at z=6", "independence is decided through its sufficient cause (shared random innovations), exactly, not through a variance test"]
which = lambda name: name.startswith("logz")


def cases(seed, tier):
    sch = Sched(seed)
    sizes, R = c01.sizes_R(tier)
    out = []
    cells = c01.cell_list(tier) + [dict(target="hole", kernel="tpcn", resample="mult", clustering=False), dict(target="hole", kernel="rwm", resample="syst", clustering=False)]
    if tier == "quick":  # the evidence needs fewer target shapes than the posterior expectations: keep the quick tier near two minutes
        cells = [c for c in cells if c["target"] in ("corr", "bimodal", "hole") or c.get("arm") or c.get("vv") or (c["target"] == "expedge") or (c["target"] == "halfgauss_reflective" and c["kernel"] == "rwm")]
    for cell in cells:
        out += E.cell_cases(cell, sizes, R, sch, "c02")
    n_log = 24 if tier == "quick" else 600
    for k in range(n_log):
        r = random.Random(sch.np_seed(f"c02.log{k}"))
        out.append(dict(kind="rnglog", seed=sch.np_seed(f"c02.l{k}") % (2**31), clustering=(k % 2 == 0), kernel=r.choice(["tpcn", "rwm"]), resample=r.choice(["mult", "syst"]),
                        resume=(k % 3 == 0), crash_batch=r.randrange(4, 16), N=r.choice([16, 32])))
    return out


def iter_sets(run):
    """Per-iteration sets of float draw digests, split at the 'reweight' marks."""
    cuts = [n for (lab, n) in run.marks if lab == "reweight"] + [10**12]
    sets = [set() for _ in cuts]
    j = 0
    for (seq, name, shape, site, d) in run.events:
        if name in ("choice", "randint", "permutation", "shuffle", "get_state", "set_state"):
            continue
        while j + 1 < len(cuts) and seq >= cuts[j + 1]:
            j += 1
        if seq >= cuts[0]:
            sets[j].add(d)
    return sets


def run_rnglog(case):
    from .. import targets as T

    viol = []
    base = dict(target=dict(T.spec_bimodal(d=2), kind="bimodal"), cfg=dict(n_particles=case["N"], clustering=case["clustering"], sample=case["kernel"], resample=case["resample"], random_state=None),
                n_total=4 * case["N"], eval="scalar", rng_record=1, scenario="plain")
    keys = dict(clustering=bool(case["clustering"]))
    runs = []
    for j, (amb, rs) in enumerate([(case["seed"], None), (case["seed"] + 1, None), (case["seed"], 11), (case["seed"], 12)]):
        c = copy.deepcopy(base)
        c["seed"] = amb
        c["cfg"]["random_state"] = rs
        if case["resume"] and j == 0:
            c.update(scenario="crash_resume", save_every=1, like_fault=dict(kind="crash.process", batch=case["crash_batch"]))
            c["cfg"]["random_state"] = 5 if case["seed"] % 2 else None  # seeded and unseeded resumed runs
        w, info = scenario.execute(c, [])
        runs.append((w, info))
    allsets = []
    for (w, info) in runs:
        s = set()
        for r in w.rng_runs:
            s |= set(r.float_digests())
        allsets.append(s)
    for a, b, what in ((0, 1, "different ambient stream states, no random_state"), (2, 3, "random_state=11 vs 12")):
        sh = allsets[a] & allsets[b]
        if sh and min(len(allsets[a]), len(allsets[b])) > 32:
            viol.append(dict(property=PROP, oracle="shared_innovations", detail=f"two runs ({what}) share {len(sh)} of {len(allsets[a])} 64-bit draw values: their errors cannot be independent", keys=dict(keys, scope="runs")))
    w0, info0 = runs[0]
    n_iter_pairs = 0
    for ri, r in enumerate(w0.rng_runs):
        sets = iter_sets(r)
        seen = {}
        for t, st in enumerate(sets):
            for d in st:
                if d in seen and seen[d] != t:
                    viol.append(dict(property=PROP, oracle="shared_innovations", detail=f"iterations {seen[d] + 1} and {t + 1} of one run (incarnation {ri}) drew the same 64-bit value(s): successive iterations replay innovations", keys=dict(keys, scope="iterations")))
                    break
                seen[d] = t
            else:
                continue
            break
        n_iter_pairs += len(sets)
    if case["resume"] and info0.get("resumed") and len(w0.rng_runs) == 2:
        upto = max([n for (lab, n) in w0.rng_runs[0].marks if lab == f"save:{info0['resume_from']}"] or [0])
        f0 = set(d for (seq, name, shape, site, d) in w0.rng_runs[0].events if seq < upto and name not in ("choice", "randint", "permutation", "shuffle", "get_state", "set_state"))
        sh = f0 & set(w0.rng_runs[1].float_digests())
        if sh:
            viol.append(dict(property=PROP, oracle="shared_innovations", detail=f"the resumed incarnation re-used {len(sh)} draw values that had already produced stored history", keys=dict(keys, scope="resume")))
    return dict(violations=viol, stats=dict(rnglog_groups=1, iterations_compared=n_iter_pairs), probes=dict(rnglog_resume_reached=1) if (case["resume"] and info0.get("resumed")) else {},
                digest=json.dumps([r.digest() for r in w0.rng_runs]), distinct_key="rnglog:" + json.dumps({k: case[k] for k in ("clustering", "kernel", "resample", "resume")}, sort_keys=True),
                nontrivial=len(allsets[0]) > 100, sample=dict(kind="rnglog", draws=[len(s) for s in allsets]))


def run_case(case):
    if case.get("kind") == "cell":
        import sys

        return E.replay_cell(case, sys.modules[__name__], which, PROP)
    if case.get("kind") == "rnglog":
        return run_rnglog(case)
    r = E.run_single(case)
    r["sample"] = dict(cell=case["cell"], N=case["N"], logz_error=None if r["est"] is None else round(r["est"]["logz"], 4))
    r["distinct_key"] = r["cellid"] + f"/N{case['N']}"
    return r


def aggregate(results, cases_):
    v, tables = E.aggregate(results, cases_, which, PROP)
    return v, dict(logz_bias_tables=tables)


def shrink(case):
    return iter(())
