"""C09 - seeded runs are reproducible; the library never resets the global RNG (rnglog / replay engine)."""
import copy
import hashlib
import json
import random

import numpy as np

from .. import scenario, seams
from ..sched import Sched
from ..world import World, state_digest
from . import _worldprop as wp

PROP = "C09"
LEVEL = "exploration"
RULE = ("twin groups of seeded executions observed at the RNG seam: (a) same random_state, different ambient state of the process-wide stream at construction -> identical "
        "histories/evidence; (b) different random_state -> different results and disjoint sets of 64-bit draw digests; (c) library operations {hierarchical fit, mixture fit with and "
        "without random_state, full clustered run, crash->resume} started from two different stream states must leave the stream in different states (next draws differ) and must not "
        "issue seed(k) from a tempest frame (the documented seeding by the user's own random_state at construction/load excepted); distinct = configuration class; non-trivial = "
        "the execution made at least 200 draws through the seam")
ASSUMPTIONS = ["all library randomness flows through the numpy.random legacy API (tripwires: unseeded default_rng from a tempest frame, real global state fingerprint unchanged)",
               "seeding the stream with the user's own random_state at construction or load_state is the documented behaviour and is exempt from (c)"]


def run_plain(case, ambient, random_state, record=1, scen=None):
    c = copy.deepcopy(case)
    c["seed"] = ambient
    c["cfg"]["random_state"] = random_state
    if random_state is not None and case.get("rs_type"):
        # the seed arrives as a NumPy integer scalar (np.arange(n)[i], rng.integers(...), SeedSequence.generate_state()), not as a built-in int
        c["cfg"]["random_state"] = getattr(np, case["rs_type"])(random_state)
    c["rng_record"] = record
    c["post_ops"] = True
    if scen:
        c.update(scen)
    w, info = scenario.execute(c, [])
    s = info.get("sampler")
    dig = state_digest(s.state) if s is not None else None
    ev = float(s.evidence()[0]) if (s is not None and info["completed"]) else None
    return dict(w=w, info=info, digest=dig, ev=ev, runs=w.rng_runs)


def lib_seed_calls(runs, allow_user_seed):
    out = []
    for r in runs:
        for (n, k, site) in r.seed_calls:
            if site == "caller":
                continue
            if allow_user_seed is not None and k == allow_user_seed and any(x in site for x in ("core.py", "sampler.py")):
                continue
            out.append((k, site))
    return out


def op_next_draw(op, ambient, data):
    """Run a library operation from stream state `ambient`; return (next draw, seed calls from tempest frames)."""
    from tempest.cluster import GaussianMixture, HierarchicalGaussianMixture

    X, wts = data
    run = seams.RngRun(ambient, record=0)
    with seams.active(run):
        pre = np.random.random()
        if op == "hgmm_fit":
            HierarchicalGaussianMixture(normalize=True).fit(X, wts)
        elif op == "hgmm_fit_predict":
            h = HierarchicalGaussianMixture(normalize=False).fit(X, wts)
            h.predict(X[:10])
        elif op == "gmm_fit_random_state":
            GaussianMixture(n_components=2, random_state=42).fit(X, wts)
        elif op == "gmm_fit_none":
            GaussianMixture(n_components=2).fit(X, wts)
        nxt = np.random.random()
    return pre, nxt, [(k, site) for (_, k, site) in run.seed_calls if site != "caller"], run.n


def run_case(case):
    violations, stats, probes = [], {}, {}
    R = case["cfg"].get("random_state", 0)
    keys = dict(clustering=bool(case["cfg"].get("clustering")))

    def V(oracle, detail, **k):
        violations.append(dict(property=PROP, oracle=oracle, detail=detail, keys=dict(keys, **k)))

    s1, s2 = case["seed"], case["seed"] + 1
    base_scen = dict(scenario="rerun", n_total2=case["n_total"]) if case.get("rerun_arm") else None  # run() twice on the same sampler
    A1 = run_plain(case, s1, R, scen=base_scen)
    if A1["info"].get("exc") or A1["info"].get("hang"):
        stats["aborted"] = 1
        return dict(violations=[], stats=stats, probes=probes, digest="x", distinct_key=scenario.cfg_class(case), nontrivial=False, sample=dict(exc=A1["info"].get("exc")))
    A1b = run_plain(case, s1, R, scen=base_scen)
    if A1b["digest"] != A1["digest"] or [r.digest() for r in A1b["runs"]] != [r.digest() for r in A1["runs"]]:
        V("replay.nondeterministic", "the same execution (same ambient stream state, same random_state) gave a different history or RNG event log when repeated with every random source controlled")
    A2 = run_plain(case, s2, R, scen=base_scen)
    if A2["digest"] != A1["digest"] or A2["ev"] != A1["ev"]:
        V("seed.not_reproducible", f"two samplers constructed with random_state={R} on the same inputs gave different histories/evidence ({A1['ev']!r} vs {A2['ev']!r}) when the process-wide stream was in a different state at construction")
    B = run_plain(case, s1, R + 1, scen=base_scen)
    if B["digest"] == A1["digest"] and A2["digest"] == A1["digest"]:
        V("seed.no_effect", f"random_state={R} and random_state={R + 1} gave identical histories")
    if A2["digest"] == A1["digest"]:
        fa = set(d for r in A1["runs"] for d in r.float_digests())
        fb = set(d for r in B["runs"] for d in r.float_digests())
        shared = fa & fb
        if shared and len(fa) > 32:
            V("seed.shared_draws", f"runs with random_state={R} and {R + 1} share {len(shared)} of {len(fa)} 64-bit draw values (same innovations replayed)")
    bad = lib_seed_calls(A1["runs"], R)
    if bad:
        V("stream.library_seed_call", f"library code re-seeded the process-wide stream during a run: seed({bad[0][0]}) from {bad[0][1]} ({len(bad)} call(s))", site=bad[0][1].split(":")[0], value=bad[0][0])
    # (c) full run with random_state=None from two ambient states: the stream after the run must differ
    N1 = run_plain(case, s1, None, record=0)
    N2 = run_plain(case, s2, None, record=0)
    if N1["digest"] is not None and N1["digest"] == N2["digest"]:
        V("stream.reset", "two runs without random_state, started from different states of the process-wide stream, produced identical histories", op="full_run")
    n1 = N1["runs"][-1].rs.random_sample()
    n2 = N2["runs"][-1].rs.random_sample()
    if n1 == n2:
        V("stream.reset", f"after a full run the next draw from the process-wide stream is {n1!r} whatever its state was before the run", op="full_run")
    bad = lib_seed_calls(N1["runs"], None)
    if bad:
        V("stream.library_seed_call", f"library code re-seeded the process-wide stream during a run without random_state: seed({bad[0][0]}) from {bad[0][1]} ({len(bad)} call(s))", site=bad[0][1].split(":")[0], value=bad[0][0])
    # crash -> resume: the resumed incarnation must not replay the innovations of the first one
    if case.get("resume_arm"):
        rscen = dict(scenario="crash_resume", save_every=1, like_fault=dict(kind="crash.process", batch=case["resume_arm"]))
        if case.get("resume_rs", "same") != "same":
            # the resuming process constructs its sampler with another random_state than the one that wrote the checkpoint (None, or another seed)
            rscen["reconfig"] = dict(random_state=None if case["resume_rs"] == "none" else (R or 0) + 17)
        C = run_plain(case, s1, R, scen=rscen)
        bad = [(k, site) for (k, site) in lib_seed_calls(C["runs"][1:], None) if not (case.get("resume_rs") == "other" and k == (R or 0) + 17 and any(x in site for x in ("core.py", "sampler.py")))]
        if case.get("resume_rs", "same") != "same" and bad:
            V("stream.library_seed_call", f"while resuming with random_state={'None' if case['resume_rs'] == 'none' else (R or 0) + 17} library code re-seeded the process-wide stream: seed({bad[0][0]}) from {bad[0][1]} "
              f"(the checkpoint was written by a sampler seeded with {R})", site=bad[0][1].split(":")[0], value=bad[0][0], op="resume")
        if C["info"]["resumed"] and len(C["runs"]) == 2:
            # only draws made *before* the checkpoint that was resumed count: what the dead
            # process drew after it was lost with the crash and may legitimately be drawn again
            upto = max([n for (lab, n) in C["runs"][0].marks if lab == f"save:{C['info']['resume_from']}"] or [0])
            f0 = set(d for (seq, name, shape, site, d) in C["runs"][0].events if seq < upto and name not in ("choice", "randint", "permutation", "shuffle", "get_state", "set_state"))
            f1 = set(C["runs"][1].float_digests())
            sh = f0 & f1
            probes["resume_arm_reached"] = 1
            # not judged (no listed property states it): does the resumed seeded run end exactly where the uninterrupted seeded run ends?
            if not case.get("rerun_arm") and C["info"]["completed"]:
                stats["resumed_equals_uninterrupted" if C["digest"] == A1["digest"] else "resumed_differs_from_uninterrupted"] = 1
            if sh and len(f1) > 16:
                V("resume.replays_innovations", f"after resuming from a checkpoint the run re-used {len(sh)} of its first {len(f0)} 64-bit draw values (the stream was rewound to its initial seed)", op="resume")
            # the resumed, seeded sampler is itself "a sampler constructed with a given random_state and run on the same inputs" (incl. the same checkpoint):
            # it must give the same history whatever the process-wide stream held when the resuming process started
            C2 = run_plain(case, s2, R, scen=rscen) if case.get("resume_rs", "same") != "none" else None
            if C2 is not None and C2["info"]["resumed"] and C2["info"].get("resume_from") == C["info"].get("resume_from") and (C2["digest"] != C["digest"] or C2["ev"] != C["ev"]):
                V("seed.not_reproducible", f"two seeded samplers (random_state={R}) resumed from the same checkpoint gave different histories/evidence ({C['ev']!r} vs {C2['ev']!r}) when the resuming process's stream was in a different state", op="resume")
    # (c) library operations on data
    drng = np.random.RandomState(case["seed"] % (2**31))
    n = 160
    X = np.vstack([drng.normal(0.3, 0.05, size=(n // 2, 2)), drng.normal(0.7, 0.05, size=(n // 2, 2))])
    wts = drng.gamma(2.0, size=n)
    for op in ("hgmm_fit", "hgmm_fit_predict", "gmm_fit_random_state", "gmm_fit_none"):
        p1, x1, sc1, nd = op_next_draw(op, s1, (X, wts))
        p2, x2, sc2, _ = op_next_draw(op, s2, (X, wts))
        stats["ops_checked"] = stats.get("ops_checked", 0) + 1
        if p1 != p2 and x1 == x2:
            V("stream.reset", f"after {op} the next draw from the process-wide stream is {x1!r} whatever the stream state was before the call", op=op)
        if sc1:
            V("stream.library_seed_call", f"{op} re-seeded the process-wide stream: seed({sc1[0][0]}) from {sc1[0][1]}", site=sc1[0][1].split(":")[0], value=sc1[0][0])
    for res in (A1, N1):
        if res["w"].soft_escapes:
            e = res["w"].soft_escapes[0]
            V("stream.unseeded_generator", f"library code draws from a generator seeded by the operating system: {e} ({len(res['w'].soft_escapes)} time(s)) - these draws do not depend on random_state", site=e.split(" from ")[-1].split(":")[0])
            break
    nd = sum(r.n for r in A1["runs"])
    stats["draws"] = nd
    for w in (A1["w"], A2["w"], B["w"]):
        if w.escapes:
            raise RuntimeError("seam escape: " + "; ".join(w.escapes))
    top = sorted(((v, k) for r in A1["runs"] for k, v in r.sites.items()), reverse=True)[:5]
    return dict(violations=violations, stats=stats, probes=probes, digest=json.dumps([A1["digest"], A1["runs"][0].digest()]), distinct_key=scenario.cfg_class(case), nontrivial=nd >= 200,
                sample=dict(cfg_class=scenario.cfg_class(case), draws=nd, top_call_sites=[f"{k[0]}@{k[1]} x{v}" for v, k in top]))


def cases(seed, tier):
    sch = Sched(seed)
    n = 110 if tier == "quick" else 8000
    out = []
    for k in range(n):
        r = random.Random(sch.np_seed(f"c09.{k}"))
        c = wp.std_case(r, sch.np_seed(f"s{k}") % (2**31), kinds=("gauss", "bimodal", "hole"), scenarios=("plain",), evals=("scalar", "vector", "scalar", "poolint", "pool"), blobs=(0,), clustering=(k % 2 == 0), vv=False, n_totals=(64, 96))
        if r.random() < 0.5:
            c["resume_arm"] = r.randrange(3, 14)
            c["resume_rs"] = r.choice(["same", "same", "none", "other"])
        if k % 7 == 3:
            c["cfg"]["random_state"] = 0  # a falsy but perfectly valid seed
        if k % 5 == 4:
            c["rerun_arm"] = True
        if k % 4 == 1:
            c["rs_type"] = r.choice(["int64", "int32", "uint32"])
        out.append(c)
    return out


shrink = wp.generic_shrink
