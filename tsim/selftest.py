"""Determinism self-test: one seed is one exactly repeatable execution.

The same cases are executed (a) twice over 16 worker processes, (b) over 3 worker processes,
(c) in a fresh interpreter under PYTHONHASHSEED=1, and the per-case event-log digests are compared.
A mismatch is exit 2 (HARNESS-NONDETERMINISM): a broken harness, never a property verdict.
"""
import importlib
import json
import os
import subprocess
import sys
import time

from . import VERIF_ROOT, harness

MIX = [("c08", 6), ("c07", 40), ("c13", 10), ("c05", 30), ("c10", 12), ("c17", 4), ("c14", 20), ("c09", 4), ("c11", 20), ("c12", 10), ("c04", 20), ("c18", 24)]


def digests(seed, workers, scale):
    out = {}
    for name, n in MIX:
        mod = importlib.import_module(f"tsim.props.{name}")
        cs = list(mod.cases(seed, "quick"))
        n = max(2, int(n * scale))
        step = max(1, len(cs) // n)
        cs = cs[::step][:n]
        if name == "c08":
            cs = [c for c in mod.cases(seed, "quick") if not c.get("enumerate")][:n]
        if name == "c17":
            cs = [dict(c, examples=40) for c in cs]
        res = harness.run_cases(mod, cs, workers=workers)
        for i, r in enumerate(res):
            if r["error"]:
                raise RuntimeError(f"{name}[{i}]: {r['error']}")
            out[f"{name}[{i}]"] = r.get("digest")
    return out


def main(argv):
    fast = "--fast" in argv
    if "--emit" in argv:
        seed = int(argv[argv.index("--emit") + 1])
        scale = float(argv[argv.index("--emit") + 2])
        print("DIGESTS " + json.dumps(digests(seed, 8, scale), sort_keys=True))
        return 0
    seed = int(os.environ.get("VERIF_SEED", "0") or 0)
    scale = 0.25 if fast else 1.0
    t0 = time.time()
    a = digests(seed, 16, scale)
    b = digests(seed, 16, scale)
    c = digests(seed, 3, scale)
    env = dict(os.environ, PYTHONHASHSEED="1", TSIM_KEEP_HASHSEED="1")
    p = subprocess.run([sys.executable, os.path.join(VERIF_ROOT, "tsim", "cli.py"), "selftest", "--emit", str(seed), str(scale)], capture_output=True, text=True, env=env, timeout=3000)
    line = [l for l in p.stdout.splitlines() if l.startswith("DIGESTS ")]
    if not line:
        print("HARNESS-ERROR: fresh interpreter produced no digests\n" + p.stdout[-2000:] + p.stderr[-2000:])
        return 2
    d = json.loads(line[0][8:])
    bad = []
    for k in sorted(a):
        vals = dict(twice=b.get(k), w3=c.get(k), fresh_hashseed1=d.get(k))
        for how, v in vals.items():
            if v != a[k]:
                bad.append((k, how))
    print(f"[selftest] cases={len(a)} x4 executions (16 workers twice, 3 workers, fresh interpreter with PYTHONHASHSEED=1) mismatches={len(bad)} wall={time.time() - t0:.1f}s")
    if bad:
        for k, how in bad[:20]:
            print(f"HARNESS-NONDETERMINISM: {k} differs ({how})")
        return 2
    return 0
