"""RNG seam (S1): interposed wrappers on the numpy.random legacy API.

While a run is active every call is served by the run's own RandomState and logged
(sequence number, function, shape, deepest tempest call site, 8-byte digest of the output).
When no run is active the original functions are called, so the harness (and Hypothesis)
are untouched.  Logging never draws and never reads a clock.
"""
import hashlib
import os
import struct
import sys

import numpy as np
from numpy.random import mtrand

_SRC = os.path.realpath(os.environ.get("TEMPEST_SRC", "/repo")) + os.sep + "tempest" + os.sep

_ORIG = {}
_ACTIVE = None  # the active RngRun or None
_INSTALLED = False
ESCAPES = []  # tripwire log: (what, site)
SOFT_ESCAPES = []  # library code asked the OS for entropy (unseeded generator); reported by C09


def _site():
    """Deepest frame inside the tempest package that led to this call: 'mcmc.py:_propose:236'."""
    f = sys._getframe(2)
    depth = 0
    while f is not None and depth < 40:
        fn = f.f_code.co_filename
        if fn.startswith(_SRC):
            return f"{fn[len(_SRC):]}:{f.f_code.co_name}:{f.f_lineno}"
        f = f.f_back
        depth += 1
    return "caller"


def _digest(out):
    if isinstance(out, np.ndarray):
        b = np.ascontiguousarray(out).tobytes()
    elif isinstance(out, float):
        b = struct.pack("<d", out)
    elif isinstance(out, (int, np.integer)):
        b = struct.pack("<q", int(out))
    elif out is None:
        b = b""
    else:
        b = repr(out).encode()
    return hashlib.blake2b(b, digest_size=8).digest()


class RngRun:
    """Per-run random stream + event log."""

    def __init__(self, seed, record=1, extremes=None, interleave=None):
        self.seed = int(seed)
        self.rs = _ORIG.get("RandomState", np.random.RandomState)(self.seed)
        self.record = record
        self.n = 0
        self.h = hashlib.blake2b(digest_size=16)
        self.events = []  # (seq, fn, shape, site, digest_hex)
        self.seed_calls = []  # (seq, k, site)
        self.sites = {}
        self.extremes = extremes or {}  # {call_index: value} for scalar uniform draws
        self.extremes_fired = 0
        self.consec_site = None
        self.consec = 0
        self.max_consec = 0
        self.marks = []  # (label, n) placed by the world at stage boundaries

    def derive_seed(self):
        self.n_derived = getattr(self, "n_derived", 0) + 1
        return (self.seed * 1000003 + self.n_derived * 7919) % (2**32)

    def mark(self, label):
        self.marks.append((label, self.n))
        self.consec = 0

    def note_progress(self):
        """Called by the likelihood seam: resets the redraw watchdog."""
        self.consec = 0

    def call(self, name, args, kwargs):
        site = _site()
        if name == "seed":
            k = args[0] if args else kwargs.get("seed")
            self.seed_calls.append((self.n, None if k is None else int(k) if np.isscalar(k) else "array", site))
            self.n += 1
            self.h.update(b"seed" + repr(k).encode())
            return self.rs.seed(*args, **kwargs)
        out = getattr(self.rs, name)(*args, **kwargs)
        if self.extremes and name in ("random", "rand", "random_sample"):
            # fault kind rng.extreme: a legal but extreme uniform output (0.0 or 1-2^-53) at a seeded subset of draws.
            # The stream position is unchanged (the draw above was made), only the returned value is replaced.
            h = hashlib.blake2b(f"{self.extremes.get('seed', 0)}:{self.n}".encode(), digest_size=4).digest()
            if int.from_bytes(h, "big") / 2**32 < self.extremes.get("rate", 0.0):
                val = (0.0, 1.0 - 2.0**-53)[h[0] & 1]
                if isinstance(out, np.ndarray):
                    if out.size:
                        out = out.copy()
                        out.flat[h[1] % out.size] = val
                        self.extremes_fired += 1
                else:
                    out = val
                    self.extremes_fired += 1
        if name in ("get_state", "set_state", "shuffle"):
            d = b"-"
        else:
            d = _digest(out)
        self.h.update(name.encode() + d)
        if self.record:
            shape = out.shape if isinstance(out, np.ndarray) else ()
            self.events.append((self.n, name, shape, site, d.hex()))
        key = (name, site)
        self.sites[key] = self.sites.get(key, 0) + 1
        if site == self.consec_site:
            self.consec += 1
            if self.consec > self.max_consec:
                self.max_consec = self.consec
            if self.consec > 2_000_000:
                raise SimHang(f"{self.consec} consecutive draws from {site} without progress")
        else:
            self.consec_site = site
            self.consec = 1
        self.n += 1
        return out

    def digest(self):
        return self.h.hexdigest()

    def float_digests(self):
        """Digests of draws that carry >= 64 bits of randomness (float arrays / float scalars)."""
        out = []
        for (_, name, shape, site, d) in self.events:
            if name in ("choice", "randint", "permutation", "shuffle", "get_state", "set_state"):
                continue
            out.append(d)
        return out


class SimHang(BaseException):
    """Watchdog verdict: a loop draws forever without evaluating anything."""


def _make_wrapper(name):
    orig = _ORIG[name]

    def wrapper(*args, **kwargs):
        run = _ACTIVE
        if run is None:
            return orig(*args, **kwargs)
        return run.call(name, args, kwargs)

    wrapper.__name__ = name
    wrapper.__qualname__ = name
    wrapper.__doc__ = getattr(orig, "__doc__", None)
    wrapper._tsim_wrapped = True
    return wrapper


def install():
    global _INSTALLED
    if _INSTALLED:
        return
    rs = mtrand._rand
    for name in dir(np.random.RandomState):
        if name.startswith("_"):
            continue
        f = getattr(np.random, name, None)
        if f is None or not callable(f):
            continue
        _ORIG[name] = f
        setattr(np.random, name, _make_wrapper(name))
    # tripwire: unseeded Generator construction from library code
    _orig_default_rng = np.random.default_rng
    _ORIG["default_rng"] = _orig_default_rng

    def default_rng(seed=None, *a, **k):
        if _ACTIVE is not None and seed is None:
            s = _site()
            if s != "caller":
                # entropy taken from the OS by library code: keep the run replayable (derived seed) and
                # record it; C09 reports it, the other properties are not about it
                SOFT_ESCAPES.append(("default_rng(None)", s))
                seed = _ACTIVE.derive_seed()
        return _orig_default_rng(seed, *a, **k)

    np.random.default_rng = default_rng

    _OrigRS = np.random.RandomState
    _ORIG["RandomState"] = _OrigRS

    class RandomState(_OrigRS):
        def __init__(self, seed=None, *a, **k):
            if seed is None and _ACTIVE is not None:
                s = _site()
                if s != "caller":
                    SOFT_ESCAPES.append(("RandomState(None)", s))
                    seed = _ACTIVE.derive_seed()
            super().__init__(seed, *a, **k)

    RandomState.__module__ = _OrigRS.__module__
    np.random.RandomState = RandomState
    for name in ("ranf", "sample"):
        f = getattr(np.random, name, None)
        if callable(f) and name not in _ORIG:
            _ORIG[name] = f
            setattr(np.random, name, _make_wrapper("random_sample"))
            _ORIG.setdefault("random_sample", f)
    _INSTALLED = True


def real_state_fingerprint():
    st = _ORIG["get_state"]()
    return hashlib.blake2b(st[1].tobytes() + struct.pack("<q", st[2]), digest_size=8).hexdigest()


def real_seed(k):
    _ORIG["seed"](k)


class active:
    """Context manager: route numpy.random.* to `run` for the duration."""

    def __init__(self, run):
        self.run = run

    def __enter__(self):
        global _ACTIVE
        self.prev = _ACTIVE
        _ACTIVE = self.run
        return self.run

    def __exit__(self, *exc):
        global _ACTIVE
        _ACTIVE = self.prev
        return False


def current():
    return _ACTIVE
