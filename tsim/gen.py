"""Swarm-style seeded generation of world cases (everything JSON-able)."""
from . import targets as T


def pick(rnd, xs):
    return xs[rnd.randrange(len(xs))]


def gen_target(rnd, kinds=("gauss", "bimodal", "expedge", "corr"), d=None, blobs=None, hole=None):
    k = pick(rnd, list(kinds))
    d = d or pick(rnd, [1, 2, 2, 3])
    if d == 3 and rnd.random() < 0.25 and k != "corr":
        d = pick(rnd, [5, 6, 8])  # a few higher-dimensional problems (code paths that depend on n_dim: default step counts, proposal scale 2.38/sqrt(d), covariance conditioning)
    if k == "gauss":
        s = T.spec_gauss(d=d, mu=round(rnd.uniform(-0.4, 0.4), 3), sig=round(rnd.uniform(0.05, 0.3), 3))
    elif k == "bimodal":
        s = T.spec_bimodal(d=max(d, 1), w1=round(rnd.uniform(0.2, 0.5), 2), sep=round(rnd.uniform(0.8, 1.2), 2), sig=round(rnd.uniform(0.05, 0.1), 3))
    elif k == "expedge":
        s = T.spec_expedge(d=d, lam=round(rnd.uniform(2, 10), 2))
    elif k == "corr":
        s = T.spec_corr(rho=round(rnd.uniform(-0.8, 0.8), 2), sig=round(rnd.uniform(0.03, 0.08), 3))
    elif k == "hole":
        s = T.spec_hole(d=d, f=pick(rnd, [0.9, 0.5, 0.2, 0.05]), mu=round(rnd.uniform(0.05, 0.3), 3))
    elif k == "halfgauss":
        s = T.spec_halfgauss(d=d, sig=round(rnd.uniform(0.1, 0.4), 3))
    elif k == "vonmises":
        s = T.spec_vonmises(d=d, kappa=round(rnd.uniform(1, 5), 2), m=round(rnd.uniform(0, 1), 3))
    else:
        raise ValueError(k)
    s["kind"] = k
    if blobs:
        s["blobs"] = blobs
    if hole and k in ("gauss", "expedge") and s.get("cut") is None:
        lo, hi = s["lo"][0], s["hi"][0]
        s["cut"] = [lo + hole * (hi - lo)] + list(s["hi"][1:])
    return s


def gen_cfg(rnd, d, *, clustering=None, kernels=("tpcn", "rwm"), resamplers=("mult", "syst"), vv=True, small=True,
            cluster_every=(1,), n_max_clusters=(None,), boundaries=False):
    n = pick(rnd, [8, 16, 24, 25, 30, 32] if small else [32, 64, 128])
    if rnd.random() < 0.03:
        n = pick(rnd, [500, 512, 777])  # far above any internal block size / threshold
    n = max(n, 4 * d)
    cfg = dict(
        n_particles=n,
        ess_ratio=pick(rnd, [1.0, 2.0, 2.0, 3.0, 0.7, 1.5, 2.3, 0.4, 5.0]),  # incl. targets ess_ratio*n_particles that are not integers
        sample=pick(rnd, list(kernels)),
        resample=pick(rnd, list(resamplers)),
        clustering=rnd.random() < 0.4 if clustering is None else clustering,
        random_state=rnd.randrange(1000),
    )
    if cfg["clustering"]:
        cfg["n_particles"] = max(cfg["n_particles"], 16 * d)
        cfg["normalize"] = rnd.random() < 0.7
        cfg["cluster_every"] = pick(rnd, list(cluster_every))
        cfg["n_max_clusters"] = pick(rnd, list(n_max_clusters))
        cfg["split_threshold"] = pick(rnd, [0.5, 1.0, 1.0, 2.0, 0.1, 5.0])
    if vv and rnd.random() < 0.25:
        cfg["volume_variation"] = pick(rnd, [0.05, 0.1, 0.25, 1.0])
    if rnd.random() < 0.3:
        cfg["n_steps"] = pick(rnd, [1, 2, 3, 7])
    if rnd.random() < 0.3:
        cfg["n_max_steps"] = pick(rnd, [1, 5, 10, 40])
    if boundaries and rnd.random() < 0.08:
        cfg["periodic"], cfg["reflective"] = [], []  # empty lists are valid and mean "no special coordinate"
    elif boundaries and d >= 1 and rnd.random() < 0.5:
        idx = rnd.randrange(d)
        if rnd.random() < 0.5:
            cfg["periodic"] = [idx]
        else:
            cfg["reflective"] = [idx]
    return cfg


def gen_eval(rnd, blobs=False, modes=("scalar", "vector", "pool", "poolint")):
    m = pick(rnd, [x for x in modes if not (blobs and x == "vector")])
    out = dict(eval=m)
    if m in ("pool", "poolint"):
        out["pool"] = dict(workers=pick(rnd, [1, 2, 3, 7, 16] if m == "pool" else [2, 3, 4]))
    return out
