"""Seeded search driver: case generation, parallel execution, verdicts, minimisation, replay,
known-findings matching and evidence.  Exit codes: 0 held, 1 VIOLATION, 2 harness error."""
import faulthandler
import hashlib
import json
import multiprocessing
import os
import signal
import subprocess
import sys
import time
import traceback
from concurrent.futures import ProcessPoolExecutor, as_completed

from . import VERIF_ROOT, TEMPEST_SRC

CASE_TIMEOUT = int(os.environ.get("TSIM_CASE_TIMEOUT", "1200"))
WORKERS = int(os.environ.get("TSIM_WORKERS", str(min(16, os.cpu_count() or 4))))


class HarnessError(Exception):
    pass


class CaseTimeout(BaseException):
    pass


def _alarm(signum, frame):
    raise CaseTimeout()


_CHECK = None


def _worker_run(idx_case, guard=True):
    idx, case = idx_case
    if guard:
        # never armed in the main process: a forked child would inherit faulthandler's watchdog
        # state without its thread and dead-lock when re-arming it
        signal.signal(signal.SIGALRM, _alarm)
        signal.alarm(CASE_TIMEOUT)
        faulthandler.dump_traceback_later(CASE_TIMEOUT + 30, exit=True)
    t = time.time()
    try:
        r = _CHECK.run_case(case)
        r.setdefault("violations", [])
        r["error"] = None
    except CaseTimeout:
        r = dict(violations=[], error=f"timeout after {CASE_TIMEOUT}s", stats={}, probes={})
    except BaseException as e:  # harness exception (never a verdict)
        r = dict(violations=[], error="".join(traceback.format_exception(type(e), e, e.__traceback__))[-3000:], stats={}, probes={})
        from .world import forget

        forget(e)
    finally:
        if guard:
            signal.alarm(0)
            faulthandler.cancel_dump_traceback_later()
    r["idx"] = idx
    r["wall"] = time.time() - t
    return r


def run_cases(check, cases, workers=None):
    global _CHECK
    _CHECK = check
    workers = workers or WORKERS
    items = list(enumerate(cases))
    if workers <= 1 or len(items) <= 1:
        return [_worker_run(it, guard=False) for it in items]
    ctx = multiprocessing.get_context("fork")
    out = [None] * len(items)
    with ProcessPoolExecutor(max_workers=min(workers, len(items)), mp_context=ctx) as ex:
        futs = {ex.submit(_worker_run, it): it[0] for it in items}
        for f in as_completed(futs):
            r = f.result()
            out[r["idx"]] = r
    return out


# ------------------------------------------------------------------------------- known findings
def load_known():
    p = os.path.join(VERIF_ROOT, "known_findings.json")
    if not os.path.exists(p):
        return []
    return json.load(open(p))["findings"]


def match_known(v, known):
    for e in known:
        if e.get("status") != "open" or e["property"] != v["property"] or e["oracle"] != v["oracle"]:
            continue
        if all(v.get("keys", {}).get(k) == val for k, val in e.get("where", {}).items()):
            return e
    return None


def vsig(v):
    return v["oracle"] + "|" + json.dumps(v.get("keys", {}), sort_keys=True)


# ------------------------------------------------------------------------------- minimise / replay
def minimise(check, case, v0, budget=48):
    """Greedy delta debugging while the same (oracle) keeps failing."""
    known = load_known()
    k0 = match_known(v0, known)

    def fails(r):
        for v in r.get("violations", []):
            if v["oracle"] == v0["oracle"] and (match_known(v, known) is k0 or (match_known(v, known) or {}).get("what") == (k0 or {}).get("what")):
                return v
        return None

    cur, curv, used = case, v0, 0
    progress = True
    while progress and used < budget:
        progress = False
        cands = list(check.shrink(cur))[: max(0, budget - used)]
        if not cands:
            break
        res = run_cases(check, cands)
        used += len(cands)
        for c, r in zip(cands, res):
            if r["error"]:
                continue
            v = fails(r)
            if v is not None:
                cur, curv, progress = c, v, True
                break
    return cur, curv, used


def write_replay(prop, case, v, minimised_from=None):
    d = os.path.join(os.environ.get("TSIM_REPLAY_DIR") or os.path.join(VERIF_ROOT, "replays"), prop)
    os.makedirs(d, exist_ok=True)
    case = {k: x for k, x in case.items() if k != "repro_case"}
    body = dict(property=prop, case=case, expect=dict(oracle=v["oracle"], keys=v.get("keys", {}), detail=v["detail"]))
    if minimised_from is not None:
        body["minimised_from"] = minimised_from
    name = hashlib.blake2b(json.dumps(body["case"], sort_keys=True).encode(), digest_size=6).hexdigest()
    path = os.path.join(d, f"{v['oracle'].replace('/', '_')}-{name}.json")
    with open(path, "w") as f:
        json.dump(body, f, indent=1, sort_keys=True, default=str)
    return path


def confirm_replay(prop, path):
    cli = os.path.join(VERIF_ROOT, "tsim", "cli.py")
    env = dict(os.environ, PYTHONHASHSEED="0", TSIM_NO_EVIDENCE="1")
    p = subprocess.run([sys.executable, cli, prop, "--replay", path], capture_output=True, text=True, env=env, timeout=CASE_TIMEOUT + 60)
    return p.returncode == 1 and "REPRODUCED" in p.stdout, p.stdout[-2000:] + p.stderr[-2000:]


def replay(check, path):
    body = json.load(open(path))
    res = run_cases(check, [body["case"]], workers=1)[0]
    if res["error"]:
        print("HARNESS-ERROR during replay:\n" + res["error"])
        return 2
    exp = body.get("expect", {})
    hit = [v for v in res["violations"] if v["oracle"] == exp.get("oracle")] or res["violations"]
    if hit:
        v = hit[0]
        print(f"REPRODUCED oracle={v['oracle']} keys={json.dumps(v.get('keys', {}), sort_keys=True)}")
        print("  " + v["detail"])
        e = match_known(v, load_known())
        if e is not None:
            print(f"KNOWN-FINDING: property={check.PROP} {e['what']}")
            return 1
        print(f"VIOLATION property={check.PROP} replay={path}")
        return 1
    print("replay: no violation (property held on this case)")
    return 0


# ------------------------------------------------------------------------------- evidence
def validate_evidence(ev):
    try:
        import jsonschema

        schema = json.load(open("/root/.vp/EVIDENCE.schema.json"))
        jsonschema.validate(ev, schema)
        return None
    except ImportError:
        pass
    except FileNotFoundError:
        pass
    except Exception as e:  # jsonschema.ValidationError
        return str(e)[:500]
    cov = ev.get("coverage", {})
    for k in ("property_id", "tier", "seed", "level", "coverage", "wall_s"):
        if k not in ev:
            return f"missing {k}"
    if not (isinstance(cov.get("evaluations"), int) and cov["evaluations"] >= 1):
        return "coverage.evaluations"
    if not (isinstance(cov.get("distinct_nontrivial"), int) and cov["distinct_nontrivial"] >= 2):
        return "coverage.distinct_nontrivial"
    if not isinstance(cov.get("rule"), str) or not cov.get("samples"):
        return "coverage.rule/samples"
    return None


def merge_counts(dst, src):
    for k, v in (src or {}).items():
        if isinstance(v, (int, float)):
            dst[k] = dst.get(k, 0) + v
        elif isinstance(v, list):
            dst.setdefault(k, [])
            for e in v:
                if e not in dst[k] and len(dst[k]) < 64:
                    dst[k].append(e)
    return dst


def main(check, argv):
    import argparse

    ap = argparse.ArgumentParser()
    ap.add_argument("--tier", default=os.environ.get("VERIF_TIER", "quick"))
    ap.add_argument("--replay")
    ap.add_argument("--seed", type=int, default=int(os.environ.get("VERIF_SEED", "0") or 0))
    ap.add_argument("--no-minimise", action="store_true")
    ap.add_argument("--limit", type=int)
    args = ap.parse_args(argv)
    prop = check.PROP
    if args.replay:
        return replay(check, args.replay)
    tier = args.tier if args.tier in ("quick", "thorough") else "quick"
    t0 = time.time()
    print(f"[{prop}] tier={tier} VERIF_SEED={args.seed} src={TEMPEST_SRC} workers={WORKERS}", flush=True)
    cases = list(check.cases(args.seed, tier))
    if args.limit:
        cases = cases[: args.limit]
    # determinism precondition: the first cases twice, in different worker processes
    probe = cases[: min(3, len(cases))]
    results = run_cases(check, cases + probe)
    again = results[len(cases):]
    results = results[: len(cases)]
    errors = [r for r in results if r["error"]]
    nondet = [i for i, (a, b) in enumerate(zip(results, again)) if not a["error"] and not b["error"] and a.get("digest") != b.get("digest")]
    known = load_known()
    groups, known_hits = {}, {}
    n_viol = 0
    for r, c in zip(results, cases):
        for v in r["violations"]:
            n_viol += 1
            e = match_known(v, known)
            if e is not None:
                known_hits.setdefault(e["id"], [e, 0, c, v])
                known_hits[e["id"]][1] += 1
            else:
                groups.setdefault(vsig(v), (v.get("repro_case") or c, v))
    agg_extra = {}
    if hasattr(check, "aggregate"):
        extra_v, agg_extra = check.aggregate(results, cases)
        for v in extra_v:
            n_viol += 1
            e = match_known(v, known)
            if e is not None:
                known_hits.setdefault(e["id"], [e, 0, v.get("repro_case"), v])
                known_hits[e["id"]][1] += 1
            else:
                groups.setdefault(vsig(v), (v.get("repro_case"), v))
    stats, probes, distinct, nontrivial = {}, {}, set(), set()
    samples = []
    for r in results:
        merge_counts(stats, r.get("stats"))
        merge_counts(probes, r.get("probes"))
        ks = r.get("classes") or ([r["distinct_key"]] if r.get("distinct_key") is not None else [])
        for k in ks:
            distinct.add(k)
            if r.get("nontrivial", True):
                nontrivial.add(k)
        if r.get("sample") is not None and len(samples) < 4:
            samples.append(r["sample"])
    rc = 0
    lines = []
    for eid, (e, n, c, v) in sorted(known_hits.items()):
        lines.append(f"KNOWN-FINDING: property={prop} {e['what']} [{n} case(s), e.g. {v['detail'][:160]}]")
    new_reports = []
    for sig, (c, v) in sorted(groups.items())[:6]:
        mc, mv, used = (c, v, 0) if args.no_minimise else minimise(check, c, v)
        path = write_replay(prop, mc, mv, minimised_from=None if mc is c else dict(case_digest=hashlib.blake2b(json.dumps(c, sort_keys=True, default=str).encode(), digest_size=6).hexdigest(), shrink_runs=used))
        ok, out = confirm_replay(prop, path)
        if not ok:
            lines.append(f"HARNESS-ERROR: replay {path} did not reproduce in a fresh process:\n{out}")
            rc = max(rc, 2)
            continue
        lines.append(f"VIOLATION property={prop} replay={path}")
        lines.append(f"  oracle={mv['oracle']} keys={json.dumps(mv.get('keys', {}), sort_keys=True)} :: {mv['detail'][:400]}")
        new_reports.append(dict(oracle=mv["oracle"], keys=mv.get("keys", {}), replay=path))
        rc = max(rc, 1)
    if len(groups) > 6:
        lines.append(f"  (+{len(groups) - 6} further distinct violation signatures not minimised)")
    if errors:
        lines.append(f"HARNESS-ERROR: {len(errors)} case(s) raised inside the harness; first:\n{errors[0]['error']}")
        rc = 2 if rc == 0 else rc
    if nondet:
        lines.append(f"HARNESS-NONDETERMINISM: case(s) {nondet} gave different digests on re-execution")
        rc = 2 if rc == 0 else rc
    wall = time.time() - t0
    extra = check.evidence(results, cases, tier) if hasattr(check, "evidence") else {}
    rule = extra.pop("rule", getattr(check, "RULE", "seeded cases; distinct by case digest"))
    if not samples:
        samples = [dict(case=cases[0])] if cases else []
    cov = dict(
        evaluations=len(cases),
        distinct_nontrivial=len(nontrivial),
        rule=rule,
        samples=samples,
        simulated_runs_per_hour=int(len(cases) / max(wall, 1e-9) * 3600),
        seeds=len(cases),
        simulated_executions=int(stats.get("simulated_executions", 0)) or None,
        simulated_time="tempest has no timers or deadlines; simulated time = logical seam events (see counters)",
        fault_and_seam_counters=stats,
        reach_probes=probes,
        distinct_cases=len(distinct),
        determinism_recheck=dict(cases=len(probe), mismatches=len(nondet)),
        known_findings_hit=[dict(id=e["id"], cases=n) for eid, (e, n, c, v) in sorted(known_hits.items())],
        new_violations=new_reports,
        components=dict(real=["tempest (all modules)", "numpy", "scipy", "dill", "CPython io buffering", "pathlib", "tqdm"],
                        stub=["multiprocess.Pool (SimPool)", "OS file system under /simfs (SimFS)", "sys.stderr/stdout", "tqdm clock", "user model (simulator-owned targets)", "numpy.random global stream (per-run RandomState behind wrappers)"]),
    )
    cov.update(extra)
    cov.update(agg_extra or {})
    ev = dict(property_id=prop, tier=tier, seed=args.seed, level=check.LEVEL, coverage=cov,
              assumptions=list(getattr(check, "ASSUMPTIONS", [])), wall_s=round(wall, 2), violations=n_viol - sum(n for _, n, _, _ in known_hits.values()))
    bad = validate_evidence(ev)
    if bad:
        lines.append(f"HARNESS-ERROR: evidence does not validate: {bad}")
        rc = 2 if rc == 0 else rc
    if not os.environ.get("TSIM_NO_EVIDENCE"):
        os.makedirs(os.path.join(VERIF_ROOT, "evidence"), exist_ok=True)
        with open(os.path.join(VERIF_ROOT, "evidence", f"{prop}.json"), "w") as f:
            json.dump(ev, f, indent=1, sort_keys=True, default=str)
    for ln in lines:
        print(ln)
    print(f"[{prop}] cases={len(cases)} distinct_nontrivial={len(nontrivial)} violations={n_viol} known={sum(n for _, n, _, _ in known_hits.values())} errors={len(errors)} wall={wall:.1f}s exit={rc}")
    return rc
