"""Worker-pool seam (S3): an in-process pool whose completion order the scheduler decides.

`map` keeps the contract real pools give (results in submission order) while the tasks are
*evaluated* in a seeded order, chunked over W simulated workers.  Function and arguments are
round-tripped through dill exactly as `multiprocess` would ship them.
"""
import hashlib
import random

import dill


class WorkerDied(RuntimeError):
    pass


class SimPool:
    def __init__(self, workers=4, seed=0, ship=True, faults=None, stats=None, lazy=False):
        self.workers = max(1, int(workers))
        self.rnd = random.Random(seed)
        self.ship = ship
        self.faults = faults or {}  # {"death_at_map": k}
        self.stats = stats if stats is not None else {}
        self.n_maps = 0
        self.closed = False
        self.terminated = False
        self.orders = set()
        self.lazy = lazy  # map returns a generator (as concurrent.futures executors and some MPI pools do)

    # pickling a live pool is what real pools refuse
    def __reduce__(self):
        raise NotImplementedError("pool objects cannot be passed between processes or pickled")

    def _bump(self, k, v=1):
        self.stats[k] = self.stats.get(k, 0) + v

    def _run(self, func, items):
        items = list(items)
        n = len(items)
        self.n_maps += 1
        self._bump("pool.maps")
        self._bump("pool.tasks", n)
        if self.ship:
            func = dill.loads(dill.dumps(func))
        chunk = self.rnd.choice([1, 1, 2, 3, max(1, n // (4 * self.workers) + 1)])
        chunks = [list(range(i, min(n, i + chunk))) for i in range(0, n, chunk)]
        # assign chunks to workers round-robin; completion order = seeded interleaving of workers
        per = [[] for _ in range(self.workers)]
        for ci, c in enumerate(chunks):
            per[ci % self.workers].append(c)
        order = []
        heads = [0] * self.workers
        live = [w for w in range(self.workers) if per[w]]
        slow = self.rnd.random() < 0.3
        slow_w = self.rnd.randrange(self.workers) if slow else None
        while live:
            cand = [w for w in live if w != slow_w] or live
            w = self.rnd.choice(cand if self.rnd.random() < 0.9 else live)
            order.append(per[w][heads[w]])
            heads[w] += 1
            if heads[w] >= len(per[w]):
                live.remove(w)
        flat = [i for c in order for i in c]
        self.orders.add(hashlib.blake2b(repr((n, flat)).encode(), digest_size=6).hexdigest())
        if flat != sorted(flat):
            self._bump("pool.reordered_maps")
        die = self.faults.get("death_at_map")
        results = [None] * n
        for pos, i in enumerate(flat):
            if die is not None and self.n_maps - 1 == die and pos == n // 2:
                self._bump("pool.worker_death")
                raise WorkerDied(f"worker died during map #{die}")
            arg = dill.loads(dill.dumps(items[i])) if self.ship else items[i]
            results[i] = func(arg)
        return results, flat

    def map(self, func, iterable, chunksize=None):
        res = self._run(func, iterable)[0]
        if self.lazy:
            self._bump("pool.lazy_maps")
            return (r for r in res)
        return res

    def imap(self, func, iterable, chunksize=1):
        return iter(self._run(func, iterable)[0])

    def imap_unordered(self, func, iterable, chunksize=1):
        res, flat = self._run(func, iterable)
        return iter([res[i] for i in flat])

    def starmap(self, func, iterable, chunksize=None):
        return self._run(lambda a: func(*a), iterable)[0]

    def apply_async(self, func, args=(), kwds=None):
        val = func(*args, **(kwds or {}))

        class _R:
            def get(self, timeout=None):
                return val

        return _R()

    def close(self):
        self.closed = True
        self._bump("pool.close")

    def join(self):
        pass

    def terminate(self):
        self.terminated = True
        self._bump("pool.terminate")

    def __enter__(self):
        return self

    def __exit__(self, *a):
        self.terminate()
        return False


class PoolFactory:
    """Stands in for `multiprocess.Pool`: records constructions, builds SimPools."""

    def __init__(self, seed=0, stats=None):
        self.rnd = random.Random(seed)
        self.stats = stats if stats is not None else {}
        self.made = []

    def __call__(self, processes=None, *a, **k):
        self.stats["pool.constructed"] = self.stats.get("pool.constructed", 0) + 1
        p = SimPool(processes or 4, seed=self.rnd.randrange(2**32), stats=self.stats)
        self.made.append(p)
        return p
