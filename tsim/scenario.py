"""Scenario executor shared by the world-engine properties.

scenario kinds
  plain         one incarnation: run(n_total)
  crash_resume  run with checkpoints, process crash at likelihood batch k (or at a syscall),
                fresh incarnation resumes from the newest checkpoint (optionally reconfigured)
  rerun         run(n_total) twice on the same sampler (history retained, beta restarts)
  like_raise    the user's likelihood raises at batch k; monitors then inspect what is readable
  pool_death    a pool worker dies during map #k; the exception must surface
"""
import os
import re

from .oracles import IterCap
from .seams import SimHang
from .simfs import SimCrash
from .world import LikeFault, LikeInterrupt, World, forget
from .simpool import WorkerDied


def latest_checkpoint(fs, d="/simfs/out", label="ps"):
    best, bi = None, -1
    for p in fs.files(d):
        m = re.match(rf"^{re.escape(d)}/{re.escape(label)}_(\d+)\.state$", p)
        if m and int(m.group(1)) > bi:
            best, bi = p, int(m.group(1))
    return best


def _note_exc(info, e, prefix=""):
    """Record an exception that ended a library call.  An exception without any library frame in its traceback was raised by the
    harness's own code (a monitor, a target): that is a harness error and must not be mistaken for an outcome of the run."""
    import traceback as _tb

    tb = _tb.extract_tb(e.__traceback__)
    site = [f for f in tb if "/tempest/" in f.filename]
    inner = tb[-1].filename if tb else ""
    if not site or (os.path.dirname(os.path.abspath(__file__)) in os.path.abspath(inner) and os.path.basename(inner) not in ("simfs.py", "simpool.py", "targets.py", "seams.py")):
        raise e  # raised by a monitor / oracle / reference model: harness error
    info["exc"] = f"{prefix}{type(e).__name__}: {str(e)[:160]}"
    info["exc_type"] = type(e).__name__
    info["exc_site"] = f"{site[-1].filename.split('/tempest/')[-1]}:{site[-1].name}"
    forget(e)


def execute(case, monitors, iter_cap=400):
    w = World(case, monitors=list(monitors) + [IterCap(iter_cap)])
    kind = case.get("scenario", "plain")
    n_total = case["n_total"]
    info = dict(kind=kind, completed=False, crashed=False, resumed=False, exc=None, iters=[], hang=None)
    save_every = case.get("save_every")
    lf = case.get("like_fault") if kind in ("crash_resume", "like_raise") else None
    plan = None
    if kind == "crash_resume" and case.get("fs_fault"):
        plan = {int(case["fs_fault"]["at"]): dict(kind=case["fs_fault"].get("kind", "crash.process"), cut_seed=case["fs_fault"].get("cut_seed", 0))}
    try:
        with w.incarnation(plan=plan, like_fault=lf, rng_record=case.get("rng_record", 0), extremes=case.get("rng_extreme")) as inc:
            s = inc.new_sampler()
            info["sampler"] = s
            try:
                s.run(n_total=n_total, progress=bool(case.get("progress")), save_every=save_every)
                info["completed"] = True
                for m in w.monitors:
                    if hasattr(m, "on_run_end"):
                        m.on_run_end(inc, s, n_total, "first")
                if case.get("post_ops"):
                    # the user reads the results inside the same process (still under the seams)
                    s.posterior(resample=True)
                    s.posterior()
                    s.results()
                    s.evidence()
                if kind == "extra_samples":
                    for _ in range(case.get("n_extra", 2)):
                        s.sample()
                    w.probe("manual_sample_after_run")
                    for m in w.monitors:
                        if hasattr(m, "on_readonly"):
                            m.on_readonly(inc, s, "after_sample")
                if kind == "rewind":
                    # the same sampler object (its stage objects have lived through a whole run) goes back to an earlier checkpoint of that run and
                    # continues from there: nothing a stage object remembers from the finished run may leak into the resumed one
                    cks = sorted([p for p in w.fs.files("/simfs/out") if re.search(r"_(\d+)\.state$", p)], key=lambda p: int(re.search(r"_(\d+)\.state$", p).group(1)))
                    if cks:
                        ck = cks[0] if case.get("rewind_to", "first") == "first" else cks[len(cks) // 2]
                        info["resume_from"] = ck
                        for m in w.monitors:
                            if hasattr(m, "on_phase"):
                                m.on_phase(inc, "resume")
                        info["iters"].append(inc.n_commits)
                        inc.n_commits = 0
                        info["completed"] = False
                        n2 = case.get("resume_n_total", n_total)
                        s.run(n_total=n2, progress=False, resume_state_path=ck)
                        info["completed"] = True
                        info["resumed"] = True
                        w.probe("same_object_rewound_to_earlier_checkpoint")
                        for m in w.monitors:
                            if hasattr(m, "on_run_end"):
                                m.on_run_end(inc, s, n2, "resumed")
                if kind == "rerun":
                    for m in w.monitors:
                        if hasattr(m, "on_phase"):
                            m.on_phase(inc, "rerun")
                    inc.n_commits = 0
                    s.run(n_total=case.get("n_total2", n_total), progress=False)
                    for m in w.monitors:
                        if hasattr(m, "on_run_end"):
                            m.on_run_end(inc, s, case.get("n_total2", n_total), "rerun")
            except SimCrash as e:
                info["crashed"] = True
                forget(e)
            except (LikeFault, WorkerDied, LikeInterrupt) as e:
                info["exc"] = type(e).__name__
                forget(e)
                for m in w.monitors:
                    if hasattr(m, "on_exception"):
                        m.on_exception(inc, s, info["exc"])
                if case.get("after_exc"):
                    # the user catches the exception (or hits Ctrl-C in a notebook) and keeps using the same object
                    try:
                        for m in w.monitors:
                            if hasattr(m, "on_phase"):
                                m.on_phase(inc, "rerun")
                        info["iters"].append(inc.n_commits)
                        inc.n_commits = 0
                        n2 = case.get("n_total2", n_total)
                        if case["after_exc"] == "sample_then_run":
                            s.sample()  # continues the interrupted schedule by one iteration ...
                            for m in w.monitors:  # ... and run() then starts a new schedule at beta=0: a new phase for the monitors
                                if hasattr(m, "on_phase"):
                                    m.on_phase(inc, "rerun")
                            inc.n_commits = 0
                        s.run(n_total=n2, progress=False)
                        info["completed"] = True
                        info["continued_after_exception"] = True
                        w.probe("run_again_after_exception")
                        for m in w.monitors:
                            if hasattr(m, "on_run_end"):
                                m.on_run_end(inc, s, n2, "rerun")
                    except SimHang:
                        raise
                    except Exception as e2:
                        _note_exc(info, e2, prefix=f"after {info['exc']}: ")
                        info["exc_after_exception"] = True
            except SimHang:
                raise
            except Exception as e:
                _note_exc(info, e)
            info["iters"].append(inc.n_commits)
            if inc.rng.extremes_fired:
                w.bump("fault.fired.rng.extreme", inc.rng.extremes_fired)
        if kind == "load_only" and info["completed"]:
            # a new process loads one of the checkpoints into a fresh sampler and only reads from it
            cks = [p for p in w.fs.files("/simfs/out") if p.endswith(".state")]
            which = case.get("load_which", "final")
            ck = "/simfs/out/ps_final.state" if which == "final" else (latest_checkpoint(w.fs) if which == "latest" else (sorted(cks, key=lambda p: (len(p), p))[0] if cks else None))
            info["resume_from"] = ck
            with w.incarnation(rng_record=case.get("rng_record", 0)) as inc:
                s = inc.new_sampler()
                info["sampler"] = s
                try:
                    s.load_state(ck)
                    w.probe("loaded_without_running")
                    for m in w.monitors:
                        if hasattr(m, "on_readonly"):
                            m.on_readonly(inc, s, "loaded")
                except SimHang:
                    raise
                except Exception as e:
                    _note_exc(info, e)
        if kind == "resume_final" and info["completed"]:
            # the run finished and left checkpoints; a new process resumes from the final (or the newest periodic) one,
            # possibly asking for fewer effective samples than already collected (zero further iterations)
            info["completed"] = False
            ck = "/simfs/out/ps_final.state" if case.get("resume_which", "final") == "final" else latest_checkpoint(w.fs)
            info["resume_from"] = ck
            for m in w.monitors:
                if hasattr(m, "on_phase"):
                    m.on_phase(None, "resume")
            with w.incarnation(rng_record=case.get("rng_record", 0)) as inc:
                s = inc.new_sampler()
                info["sampler"] = s
                try:
                    n2 = case.get("resume_n_total", n_total)
                    s.run(n_total=n2, progress=bool(case.get("progress")), resume_state_path=ck, save_every=save_every)
                    info["completed"] = True
                    info["resumed"] = True
                    if inc.n_commits == 0:
                        w.probe("resume_with_zero_further_iterations")
                    for m in w.monitors:
                        if hasattr(m, "on_run_end"):
                            m.on_run_end(inc, s, n2, "resumed")
                except SimHang:
                    raise
                except Exception as e:
                    _note_exc(info, e)
                info["iters"].append(inc.n_commits)
        if kind == "crash_resume" and info["crashed"]:
            ck = latest_checkpoint(w.fs)
            info["resume_from"] = ck
            for m in w.monitors:
                if hasattr(m, "on_phase"):
                    m.on_phase(None, "resume")
            with w.incarnation(rng_record=case.get("rng_record", 0)) as inc:
                s = inc.new_sampler(**(case.get("reconfig") or {}))
                info["sampler"] = s
                try:
                    n2 = case.get("resume_n_total", n_total)
                    s.run(n_total=n2, progress=bool(case.get("progress")), resume_state_path=ck, save_every=save_every)
                    info["completed"] = True
                    info["resumed"] = ck is not None
                    for m in w.monitors:
                        if hasattr(m, "on_run_end"):
                            m.on_run_end(inc, s, n2, "resumed")
                except SimHang:
                    raise
                except Exception as e:
                    _note_exc(info, e)
                info["iters"].append(inc.n_commits)
    except SimHang as e:
        info["hang"] = str(e)
        forget(e)
    if w.escapes:
        raise RuntimeError("seam escape: " + "; ".join(w.escapes))
    return w, info


def cfg_class(case):
    c = case.get("cfg", {})
    t = case.get("target", {})
    b = "per" if c.get("periodic") else "ref" if c.get("reflective") else "hard"
    m = "vv" if c.get("volume_variation") else "ess"
    return (f"{t.get('kind', '?')}{t.get('d')}/{c.get('sample')}/{c.get('resample')}/cl{int(bool(c.get('clustering')))}"
            f"/{case.get('eval', 'scalar')}/b{t.get('blobs', 0)}/{b}/{m}/{case.get('scenario', 'plain')}")
