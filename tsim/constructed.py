"""Constructed checkpoints: a stored history whose pool puts the ESS crossing of the next temperature step at a chosen beta*.

Boundary situations (last step inside (1-1e-4, 1), ESS exactly at the target at beta_prev, crossing right after beta_prev) are
reached on purpose instead of once in hundreds of runs.  Used by C05 (one real reweight stage on the imported state), by C12 (a real
resumed run that terminates inside the window: postconditions) and by C10 (the same for L and L+c)."""
import random

import numpy as np

from . import refmis

HKEYS = ("u", "x", "logl", "blobs", "iter", "logz", "calls", "steps", "efficiency", "ess", "acceptance", "beta")


def build(case, shift=0.0, n_total=None):
    """Returns (checkpoint dict, history dict, target ESS) or None when the drawn pool cannot place the crossing at beta*."""
    r = random.Random(case["seed"])
    nr = np.random.RandomState(case["seed"] % (2**31))
    d, N, ratio, Tn = case["d"], case["N"], case["ess_ratio"], case["T"]
    target = ratio * N
    # history: T batches at increasing beta; logZ_t from the MIS estimate over the earlier batches (as a run would record)
    betas = sorted([0.0] + [r.uniform(0.0, 0.4) for _ in range(Tn - 1)])
    logls = [nr.standard_normal(N) * case["spread"] - case["spread"] for _ in range(Tn)]

    def mk(f):
        b = []
        for t in range(Tn):
            bt = betas[t] / f
            lz = 0.0 if t == 0 else float(refmis.mis(b, bt)[1])
            b.append((bt, lz, logls[t] * f))
        return b

    def ess_at(b, beta):
        return refmis.ess_from_logw(refmis.mis(b, beta)[0])

    base = mk(1.0)
    bp = base[-1][0]
    if not (ess_at(base, bp) > target * 1.02 and ess_at(base, 1.0) < target * 0.98):
        return None
    lo, hi = bp, 1.0
    for _ in range(80):
        mid = 0.5 * (lo + hi)
        if ess_at(base, mid) >= target:
            lo = mid
        else:
            hi = mid
    f = lo / case["beta_star"]
    b = mk(f)
    hist = {k: [] for k in HKEYS}
    for t, (bt, lz, ll) in enumerate(b):
        u = nr.random_sample((N, d))
        hist["u"].append(u); hist["x"].append(u.copy()); hist["logl"].append(ll + shift); hist["logz"].append(lz + bt * shift); hist["beta"].append(bt)
        hist["iter"].append(t + 1); hist["calls"].append(N * (t + 1)); hist["steps"].append(1); hist["efficiency"].append(1.0); hist["acceptance"].append(1.0); hist["ess"].append(float(N))
    cur = dict(u=hist["u"][-1], x=hist["x"][-1], logl=hist["logl"][-1], assignments=np.zeros(N, dtype=int), blobs=None, acceptance=1.0, steps=1, efficiency=1.0, ess=float(N),
               beta=hist["beta"][-1], logz=hist["logz"][-1], calls=hist["calls"][-1], iter=Tn)
    blob = {"_current": cur, "_history": hist, "n_dim": d, "random_state": None, "n_total": 4 * N if n_total is None else n_total, "logz_err": None}
    return blob, hist, target


def write(w, blob, path="/simfs/out/constructed.state"):
    """Inside an incarnation: put the checkpoint on the simulated disk."""
    import dill

    if "/simfs/out" not in w.fs.dirs:
        w.fs.sys_mkdir("/simfs/out")
    with open(path, "wb") as fh:
        dill.dump(blob, fh)
    return path
