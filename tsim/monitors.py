"""Read-only monitors: exact invariants checked while a simulated run proceeds."""
import itertools
import math

import numpy as np

from . import refmis
from .world import Monitor

EPS = float(np.finfo(float).eps)


def _sampler(inc):
    return inc.samplers[-1]


def _tol(batches, beta=1.0):
    m = max((float(np.max(np.abs(b[2]))) if len(b[2]) else 0.0) for b in batches) if batches else 0.0
    z = max((abs(b[1]) for b in batches), default=0.0)
    return 1e-9 + 256 * EPS * (m + z)


def _tol_reduce(lw_ref):
    """Rounding allowance for any floating-point reduction of N log-weights in the log domain (normaliser, log-evidence).

    A sequential log-sum-exp of N terms performs N-1 additions whose partial results are bounded by max|logw| + log N; each
    rounds by at most half an ulp of that, so the result is off by at most (N/2) eps (max|logw| + log N).  Twice that bound
    is allowed.  It is computed from the *reference* log-weights, and it is negligible (< 1e-9) unless N exceeds ~1e5.
    """
    n = len(lw_ref)
    if n == 0:
        return 0.0
    return n * EPS * (float(np.max(np.abs(lw_ref))) + math.log(n))


# ------------------------------------------------------------------------------------ C05
class ScheduleMon(Monitor):
    def __init__(self, prop="C05"):
        self.prop = prop
        self.prev_beta = None
        self.phase = "first"
        self.n_adv = self.n_stay = self.n_inconclusive = 0
        self.shapes = []
        self.recorded = None

    def on_phase(self, inc, phase):
        self.phase = phase
        if phase == "rerun":
            self.prev_beta = None  # beta restarts by definition of a new run

    def after_load(self, inc, core, path, err):
        if err is None:
            b = core.state._current.get("beta")
            self.prev_beta = None if b is None else float(b)
            self.resumed_from = self.prev_beta

    def after_reweight(self, inc, weights):
        w = inc.world
        s = _sampler(inc)
        st = s.state
        cfg = s._core.config
        keys = dict(mode="vv" if cfg.volume_variation is not None else "ess", phase=self.phase)
        beta = st._current["beta"]
        batches = refmis.batches_of(st)
        if beta is None or not (0.0 <= beta <= 1.0):
            w.violation(self.prop, "beta.range", f"beta={beta!r} outside [0,1]", **keys)
            return
        if not batches:
            if beta != 0.0:
                w.violation(self.prop, "beta.start", f"first iteration has beta={beta!r}", **keys)
            self.prev_beta = 0.0
            self.recorded = (beta, None)
            return
        prev = self.prev_beta
        if prev is None:
            prev = 0.0
        if beta < prev:
            w.violation(self.prop, "beta.decreased", f"beta went {prev!r} -> {beta!r} ({self.phase})", **keys)
        tol = _tol(batches)
        logw, logz, lwn = refmis.mis(batches, beta)
        ess_ref = refmis.ess_from_logw(logw)
        ess = st._current["ess"]
        lz = st._current["logz"]
        if not (abs(ess - ess_ref) <= tol * max(1.0, ess_ref) * 10):
            w.violation(self.prop, "recorded.ess", f"recorded ess={ess!r} but ESS of the pool at the recorded beta={beta!r} is {ess_ref!r}", **keys)
        if not (abs(float(lz) - float(logz)) <= tol * max(1.0, abs(float(logz))) * 10):
            w.violation(self.prop, "recorded.logz", f"recorded logz={lz!r} but MIS logZ at the recorded beta={beta!r} is {float(logz)!r}", **keys)
        wref = np.exp(lwn).astype(float)
        wts = np.asarray(weights, dtype=float)
        if wts.shape != wref.shape:
            w.violation(self.prop, "weights.shape", f"weights shape {wts.shape} != pool size {wref.shape}", **keys)
        else:
            err = float(np.max(np.abs(wts - wref)))
            if not (err <= tol * 10 * max(float(wref.max()), 1e-300) + 1e-15):
                # which temperature do they belong to (diagnostic)?
                w.violation(self.prop, "weights.other_beta", f"weights handed to train/resample differ from the MIS weights at the recorded beta={beta!r} (max abs diff {err:.3e}, max weight {wref.max():.3e})", **keys)
            if abs(float(wts.sum()) - 1.0) > 1e-9:
                w.violation(self.prop, "weights.sum", f"weights sum to {wts.sum()!r}", **keys)
        target = cfg.ess_ratio * cfg.n_particles
        if beta > prev:
            self.n_adv += 1
            ok = ess_ref >= target * (1 - 1e-9) - tol
            if cfg.volume_variation is None:
                if not ok:
                    w.violation(self.prop, "advance.ess_floor", f"advanced {prev!r}->{beta!r} where pool ESS={ess_ref:.4f} < target {target}", **keys)
            else:
                grid = np.linspace(prev, 1.0, 33)
                curve = [refmis.ess_from_logw(refmis.mis(batches, b)[0]) for b in grid]
                mono = all(curve[i + 1] <= curve[i] * (1 + 1e-9) for i in range(len(curve) - 1))
                if mono:
                    if not ok:
                        w.violation(self.prop, "advance.beyond_ess_limit", f"advanced {prev!r}->{beta!r} beyond the ESS-limited temperature: pool ESS={ess_ref:.4f} < {target}", **keys)
                else:
                    self.n_inconclusive += 1
                    w.probe("vv.ess_curve_non_monotone")
        else:
            self.n_stay += 1
            w.probe("schedule.stay")
        if beta > prev:
            w.probe("schedule.advance")
        self.prev_beta = float(beta)
        self.recorded = (float(beta), float(ess))

    def after_commit(self, inc):
        st = _sampler(inc).state
        if self.recorded is not None and st._history["beta"]:
            if float(st._history["beta"][-1]) != self.recorded[0]:
                inc.world.violation(self.prop, "committed.beta", f"committed beta {st._history['beta'][-1]!r} != beta chosen by reweighting {self.recorded[0]!r}")
            if self.recorded[1] is not None and float(st._history["ess"][-1]) != self.recorded[1]:
                inc.world.violation(self.prop, "committed.ess", f"committed ess {st._history['ess'][-1]!r} != ess recorded at reweighting {self.recorded[1]!r}")


# ------------------------------------------------------------------------------------ C04
class WeightsMon(Monitor):
    """Refinement of compute_logw_and_logz against RefMIS after every commit / load."""

    def __init__(self, rnd, prop="C04"):
        self.prop = prop
        self.rnd = rnd
        self.n_checks = 0
        self.reach = dict(T_max=0, unequal_batches=0, nonmonotone_beta=0, max_abs_logl=0.0, distinct_logz=0)

    def after_commit(self, inc):
        self.check(inc, _sampler(inc).state)

    def after_load(self, inc, core, path, err):
        if err is None:
            self.check(inc, core.state)

    def check(self, inc, st):
        from tempest.state_manager import StateManager

        w = inc.world
        batches = refmis.batches_of(st)
        if not batches:
            return
        if not all(np.all(np.isfinite(b[2])) and math.isfinite(b[1]) for b in batches):
            w.probe("history.nonfinite_logl_or_logz(skipped: outside the property's quantifier)")
            return
        T = len(batches)
        sizes = [len(b[2]) for b in batches]
        betas = [b[0] for b in batches]
        self.reach["T_max"] = max(self.reach["T_max"], T)
        if len(set(sizes)) > 1:
            self.reach["unequal_batches"] += 1
            w.probe("history.unequal_batches")
        if any(betas[i + 1] < betas[i] for i in range(T - 1)):
            self.reach["nonmonotone_beta"] += 1
            w.probe("history.nonmonotone_beta")
        self.reach["max_abs_logl"] = max(self.reach["max_abs_logl"], max(float(np.max(np.abs(b[2]))) for b in batches))
        cur = st._current.get("beta")
        bl = [0.0, 1.0] + ([float(cur)] if cur is not None else []) + [self.rnd.random() for _ in range(2)]
        keys = dict(unequal=len(set(sizes)) > 1)
        for beta in bl:
            self.n_checks += 1
            tol = _tol(batches) * 10
            lw_ref, lz_ref, lwn_ref = refmis.mis(batches, beta)
            # tol: per-sample quantities (a reduction over the T iterations only); tol_n: quantities behind a reduction over all N samples
            tol_n = tol + _tol_reduce(lw_ref)
            lwn, lz = st.compute_logw_and_logz(beta)
            lwu, lz2 = st.compute_logw_and_logz(beta, normalize=False)
            if not np.all(np.isfinite(lwn)) or not math.isfinite(lz):
                w.violation(self.prop, "finite", f"non-finite log-weights/logZ at beta={beta} for finite log-likelihoods (T={T})", **keys)
                continue
            e1 = float(np.max(np.abs(lwn - lwn_ref.astype(float))))
            e2 = float(np.max(np.abs(lwu - lw_ref.astype(float))))
            if e1 > tol_n or e2 > tol:
                w.violation(self.prop, "formula.logw", f"log-weights differ from the balance-heuristic formula at beta={beta}: max|d|={max(e1, e2):.3e} (T={T}, sizes={sorted(set(sizes))})", **keys)
            if abs(lz - float(lz_ref)) > tol_n or abs(lz2 - float(lz_ref)) > tol_n:
                w.violation(self.prop, "formula.logz", f"logZ({beta})={lz!r} but log mean unnormalised weight={float(lz_ref)!r} (T={T}, N={sum(sizes)})", **keys)
            s1 = float(np.sum(np.exp(lwn)))
            # rounding of the normaliser (a reduction over N) moves every weight by the same factor; rounding of each log-weight by ~eps |logw|
            if abs(s1 - 1.0) > _tol(batches) + _tol_reduce(lw_ref):
                w.violation(self.prop, "normalised", f"normalised weights sum to {s1!r} at beta={beta}", **keys)
        # order-independence and shift law on the implementation itself
        beta = bl[-1]
        perm = list(range(T))
        self.rnd.shuffle(perm)
        c = self.rnd.choice([-700.0, -3.5, 2.0, 512.0, 1000.0])
        h = st._history
        for what in ("perm", "shift"):
            d = {"_current": {}, "_history": {}, "n_dim": st.n_dim}
            if what == "perm":
                d["_history"] = {k: [h[k][t] for t in perm] for k in ("beta", "logz", "logl")}
            else:
                d["_history"] = dict(beta=list(h["beta"]), logl=[np.asarray(x) + c for x in h["logl"]], logz=[float(h["logz"][t]) + float(h["beta"][t]) * c for t in range(T)])
            st2 = StateManager.from_dict(d)
            lwn0, lz0 = st.compute_logw_and_logz(beta)
            lwn2, lz2 = st2.compute_logw_and_logz(beta)
            if what == "perm":
                off = np.cumsum([0] + sizes)
                lwn0 = np.concatenate([lwn0[off[t]:off[t + 1]] for t in perm])
                lz_exp = lz0
            else:
                lz_exp = lz0 + beta * c
            # two evaluations are compared, each with its own reduction over N (lw_ref: reference at beta = bl[-1], from the loop above)
            tol = _tol(batches) * 10 + 2 * _tol_reduce(lw_ref) + ((256 * 4 + len(lw_ref)) * EPS * abs(c) if what == "shift" else 0)
            if float(np.max(np.abs(lwn0 - lwn2))) > tol or abs(lz2 - lz_exp) > tol:
                w.violation(self.prop, f"law.{what}", f"{what}: weights/logZ change under {'permutation of iterations' if what == 'perm' else f'likelihood shift c={c}'} (max|dlogw|={float(np.max(np.abs(lwn0 - lwn2))):.3e}, dlogZ={lz2 - lz_exp:.3e})", **keys)


# ------------------------------------------------------------------------------------ C07
def check_records(world, prop, where, target, u, x, logl, blobs, keys, allow_inf=False):
    """Exact record coherence of a particle set."""
    if u is None or x is None or logl is None:
        return 0
    u, x, logl = np.asarray(u), np.asarray(x), np.asarray(logl)
    n = len(logl)
    if len(u) != n or len(x) != n or (blobs is not None and len(blobs) != n):
        world.violation(prop, "record.length", f"{where}: field lengths differ u={len(u)} x={len(x)} logl={n} blobs={None if blobs is None else len(blobs)}", where=where.split(':')[0], **keys)
        return n
    if u.size and (np.min(u) < 0.0 or np.max(u) > 1.0 or not np.all(np.isfinite(u))):
        world.violation(prop, "record.u_range", f"{where}: unit-cube coordinates outside [0,1]: min={np.min(u)!r} max={np.max(u)!r}", where=where.split(':')[0], **keys)
    tx = target.T(u)
    if not np.array_equal(tx, x):
        i = int(np.argmax(np.any(tx != x, axis=1)))
        world.violation(prop, "record.x_ne_T_u", f"{where}: x != prior_transform(u) for row {i}: x={x[i]!r} T(u)={tx[i]!r}", where=where.split(':')[0], **keys)
    ll = np.array([target.logl_pure(row) for row in x])
    bad = ~((ll == logl) | (np.isnan(ll) & np.isnan(logl)))
    if np.any(bad):
        i = int(np.argmax(bad))
        world.violation(prop, "record.logl_ne_L_x", f"{where}: stored logl {logl[i]!r} != L(x)={ll[i]!r} for row {i} ({int(bad.sum())}/{n} rows)", where=where.split(':')[0], **keys)
    if not allow_inf and np.any(~np.isfinite(logl)):
        nb = int(np.sum(~np.isfinite(logl)))
        world.violation(prop, "record.nonfinite_logl", f"{where}: {nb} of {n} stored particle(s) with non-finite log-likelihood", where=where.split(':')[0], all_nonfinite=(nb == n), **keys)
    if target.nblobs:
        if blobs is None:
            world.violation(prop, "record.blob_missing", f"{where}: blobs missing", where=where.split(':')[0], **keys)
        else:
            bb = np.array([target.blob_pure(row) for row in x], dtype=float)
            if target.nblobs == 1:
                bb = bb[:, 0]
            b = np.asarray(blobs, dtype=float)
            if b.shape != bb.shape or not np.array_equal(b, bb):
                world.violation(prop, "record.blob_ne_B_x", f"{where}: stored blob differs from B(x) (shape {b.shape} vs {bb.shape})", where=where.split(':')[0], **keys)
    return n


class CoherenceMon(Monitor):
    def __init__(self, prop="C07", posterior_opts=True, every_step=True):
        self.prop = prop
        self.rows = 0
        self.every_step = every_step
        self.posterior_opts = posterior_opts
        self.keys = {}

    def _cur(self, inc, where, allow_inf=False):
        st = _sampler(inc).state
        c = st._current
        self.rows += check_records(inc.world, self.prop, where, inc.world.target, c["u"], c["x"], c["logl"], c["blobs"], self.keys, allow_inf)

    def after_reweight(self, inc, weights): self._cur(inc, "after_reweight")
    def after_train(self, inc, weights, ms): self._cur(inc, "after_train")
    def after_resample(self, inc): self._cur(inc, "after_resample")
    def after_mutate(self, inc): self._cur(inc, "after_mutate")

    def on_mcmc_step(self, inc, runner, alpha):
        if self.every_step:
            self.rows += check_records(inc.world, self.prop, f"mcmc_step:{runner.iteration}", inc.world.target, runner.u, runner.x, runner.logl, runner.blobs, self.keys)

    def after_commit(self, inc):
        st = _sampler(inc).state
        h = st._history
        t = len(h["beta"]) - 1
        bl = h["blobs"][t] if len(h["blobs"]) > t else None
        self.rows += check_records(inc.world, self.prop, f"commit:{t}", inc.world.target, h["u"][t], h["x"][t], h["logl"][t], bl, self.keys)
        ret = st.get_current()
        self.rows += check_records(inc.world, self.prop, "sample()_return", inc.world.target, ret["u"], ret["x"], ret["logl"], ret["blobs"], self.keys)

    def after_load(self, inc, core, path, err):
        if err is None:
            self.whole_history(inc, core.state, "after_load")

    def whole_history(self, inc, st, where):
        h = st._history
        for t in range(len(h["beta"])):
            bl = h["blobs"][t] if len(h["blobs"]) > t else None
            self.rows += check_records(inc.world, self.prop, f"{where}:batch{t}", inc.world.target, h["u"][t], h["x"][t], h["logl"][t], bl, self.keys)

    def on_run_end(self, inc, s, n_total, phase):
        self.whole_history(inc, s.state, "run_end")  # a later step must not have altered records stored earlier
        self.readable(inc, s, "run_end")

    def on_readonly(self, inc, s, where):
        if s.state.get_history_length() > 0:
            self.whole_history(inc, s.state, where)
            self.readable(inc, s, where)

    def on_exception(self, inc, s, exc):
        inc.world.probe("inspected_after_exception")
        if s.state.get_history_length() > 0:
            self.whole_history(inc, s.state, "after_exception")
            self.readable(inc, s, "after_exception")

    def readable(self, inc, s, where):
        t = inc.world.target
        sizes = {len(b) for b in s.state._history["logl"]}
        r = None
        try:
            r = s.results()
        except ValueError as e:
            # results() stacks the batches into one array and refuses histories whose batches differ in size (resume with another
            # n_particles); that refusal is outside this property - note it and go on with the accessors that do return particles
            if len(sizes) > 1:
                inc.world.probe("results_refuses_unequal_batches")
            else:
                inc.world.violation(self.prop, "results.raises", f"results() raised {type(e).__name__}: {e} ({where})", **self.keys)
            from .world import forget

            forget(e)
        if r is not None and len(sizes) == 1:
            # what results() hands to the user are particle records as well
            for k in range(len(r["beta"])):
                bl = r["blobs"][k] if (t.nblobs and "blobs" in r and len(r["blobs"]) > k) else None
                self.rows += check_records(inc.world, self.prop, f"results()[{where}]:batch{k}", t, r["u"][k], r["x"][k], r["logl"][k], bl, self.keys)
        combos = [dict(), dict(resample=True), dict(trim_importance_weights=False), dict(resample=True, trim_importance_weights=False)]
        for o in combos:
            o = dict(o, return_blobs=bool(t.nblobs))
            out = s.posterior(**o)
            x, wts, logl = out[0], out[1], out[2]
            blobs = out[3] if t.nblobs else None
            check_posterior_rows(inc.world, self.prop, f"posterior({o})", t, x, wts, logl, blobs, self.keys)
            self.rows += len(x)


def check_posterior_rows(world, prop, where, target, x, wts, logl, blobs, keys):
    n = len(x)
    if len(wts) != n or len(logl) != n or (blobs is not None and len(blobs) != n):
        world.violation(prop, "posterior.length", f"{where}: returned arrays have different lengths x={n} weights={len(wts)} logl={len(logl)} blobs={None if blobs is None else len(blobs)}", **keys)
        return
    ll = np.array([target.logl_pure(row) for row in x])
    if not np.array_equal(ll, np.asarray(logl)):
        world.violation(prop, "posterior.logl_ne_L_x", f"{where}: returned logl does not belong to the returned sample (row {int(np.argmax(ll != logl))})", **keys)
    sh = target.support_hi()
    if np.any(x < target.lo - 1e-12) or np.any(x > target.hi + 1e-12):
        world.violation(prop, "posterior.x_outside_prior", f"{where}: sample outside the prior box", **keys)
    if target.nblobs and blobs is not None:
        bb = np.array([target.blob_pure(row) for row in x], dtype=float)
        if target.nblobs == 1:
            bb = bb[:, 0]
        if np.asarray(blobs).shape != bb.shape or not np.array_equal(np.asarray(blobs, dtype=float), bb):
            world.violation(prop, "posterior.blob_ne_B_x", f"{where}: returned blobs do not belong to the returned samples", **keys)


# ------------------------------------------------------------------------------------ C12
class PosteriorMon(Monitor):
    def __init__(self, rnd, prop="C12", full=True):
        self.prop = prop
        self.rnd = rnd
        self.full = full
        self.combos = 0

    def on_readonly(self, inc, s, where):
        """posterior() contract on a sampler that is only read (loaded without running / after manual sample() calls)."""
        if s.state.get_history_length() > 0:
            self.contract(inc, s, where)
        if where == "loaded" and inc.world.case.get("load_which") == "final":
            # the final checkpoint of a finished run is the state run() returned with: its postconditions hold after a plain load
            from .oracles import run_postconditions

            run_postconditions(inc.world, s, inc.world.case["n_total"], self.prop, dict(phase="final_checkpoint_loaded"))

    def on_run_end(self, inc, s, n_total, phase):
        from .oracles import run_postconditions

        run_postconditions(inc.world, s, n_total, self.prop, dict(phase=phase))
        self.contract(inc, s, phase)

    def contract(self, inc, s, phase):
        w = inc.world
        t = w.target
        batches = refmis.batches_of(s.state)
        bt = np.array([b[0] for b in batches], dtype=refmis.LD)
        zt = np.array([b[1] for b in batches], dtype=refmis.LD)
        nt = np.array([len(b[2]) for b in batches], dtype=refmis.LD)
        lw_all, lz, lwn_all = refmis.mis(batches, 1.0)
        tot = refmis._lse(lw_all)

        def ref_logw(l):
            l = np.asarray(l, dtype=refmis.LD)
            comp = l[:, None] * bt[None, :] - zt[None, :] + (np.log(nt) - np.log(nt.sum()))[None, :]
            return (l - refmis._lse(comp, axis=1) - tot).astype(float)

        trims = [(0.99, 1000)] + ([(e, b) for e in (0.5, 0.9, 0.999) for b in (10, 100, 1000)] + [(0.01, 1000), (0.9999, 1000), (0.99, 1), (0.99, 2)] if self.full else [(0.9, 100)])
        flags = list(itertools.product([False, True], repeat=4))
        for (res, trim, rb, rl) in flags:
            tl = trims if trim else [(0.99, 1000)]
            if not self.full and len(tl) > 1:
                tl = tl[:2]
            for (et, bt_) in tl:
                o = dict(resample=res, trim_importance_weights=trim, return_blobs=rb, return_logw=rl, ess_trim=et, bins_trim=bt_)
                keys = dict(resample=res, trim=trim, return_blobs=rb, return_logw=rl)
                self.combos += 1
                try:
                    out = s.posterior(**o)
                except Exception as e:
                    w.violation(self.prop, "posterior.raises", f"posterior({o}) raised {type(e).__name__}: {e}", **keys)
                    continue
                exp_len = 3 + (1 if (rb and t.nblobs) else 0) + (1 if rl else 0)
                if len(out) != exp_len:
                    w.violation(self.prop, "posterior.arity", f"posterior({o}) returned {len(out)} values, expected {exp_len}", **keys)
                    continue
                x, wts, logl = out[0], np.asarray(out[1]), out[2]
                blobs = out[3] if (rb and t.nblobs) else None
                logw = out[-1] if rl else None
                n = len(x)
                lens = dict(x=n, weights=len(wts), logl=len(logl))
                if blobs is not None:
                    lens["blobs"] = len(blobs)
                if logw is not None:
                    lens["logw"] = len(logw)
                if len(set(lens.values())) != 1:
                    w.violation(self.prop, "posterior.length", f"posterior({o}) returned arrays of different lengths {lens}", **keys)
                    continue
                if np.any(wts < 0) or abs(float(wts.sum()) - 1.0) > 1e-9:
                    w.violation(self.prop, "posterior.weights", f"posterior({o}): weights min={wts.min()!r} sum={wts.sum()!r}", **keys)
                check_posterior_rows(w, self.prop, f"posterior({o})", t, x, wts, logl, blobs, keys)
                if res and n and float(np.max(np.abs(wts - 1.0 / n))) > 1e-15:
                    w.violation(self.prop, "posterior.resampled_not_uniform", f"posterior({o}): weights not uniform after resampling", **keys)
                if logw is not None:
                    lr = ref_logw(logl)
                    if float(np.max(np.abs(np.asarray(logw) - lr))) > _tol(batches) * 10:
                        w.violation(self.prop, "posterior.logw_row", f"posterior({o}): returned logw is not the log-weight of the returned sample in the same row (max|d|={float(np.max(np.abs(np.asarray(logw) - lr))):.3e})", **keys)
                    if not res:
                        ww = np.exp(np.asarray(logw) - np.max(logw))
                        ww /= ww.sum()
                        if float(np.max(np.abs(ww - wts))) > 1e-9:
                            w.violation(self.prop, "posterior.weights_vs_logw", f"posterior({o}): weights are not proportional to exp(logw) on the returned subset", **keys)


# ------------------------------------------------------------------------------------ C14
class ModesMon(Monitor):
    def __init__(self, prop="C14"):
        self.prop = prop
        self.last_fit = None
        self.fits = []  # every mode fit made during the current training stage
        self.stage = None  # what the training stage of this iteration returned, and the fits it was built from
        self.stages = 0
        self.k_ge2 = 0

    def after_train(self, inc, weights, ms):
        self.stage = dict(ms=ms, fits=self.fits)
        self.fits = []

    def on_modes_fit(self, inc, how, u, weights, labels, ms):
        self.last_fit = dict(how=how, labels=None if labels is None else np.asarray(labels).copy(), ms=ms, n=len(u), u=np.asarray(u).copy())
        self.fits.append(self.last_fit)
        # "that mode was fitted from the particles of that same cluster": any location estimate computed from a
        # cluster's points (median, weighted mean, EM fixed point) lies inside their bounding box - exact necessary condition
        u = np.asarray(u)
        w = inc.world
        s = _sampler(inc)
        keys = dict(cluster_every=s._core.config.cluster_every, clustering=bool(s._core.config.clustering))
        if how == "from_particles" and labels is not None:
            labels = np.asarray(labels)
            uniq = np.unique(labels)
            if len(uniq) == ms.K:
                for j, lab in enumerate(uniq.tolist()):
                    pts = u[labels == lab]
                    lo, hi = pts.min(axis=0), pts.max(axis=0)
                    tol = 1e-9 * (1.0 + np.abs(hi - lo))
                    if np.any(ms.means[j] < lo - tol) or np.any(ms.means[j] > hi + tol):
                        if len(uniq) > 1:
                            w.probe("modes.checked_fit_K_ge_2")
                        w.violation(self.prop, "mode.not_from_own_cluster", f"mode {j} (label {lab}, {len(pts)} training points) has its location {np.round(ms.means[j], 4).tolist()} outside the bounding box "
                                    f"[{np.round(lo, 4).tolist()}, {np.round(hi, 4).tolist()}] of the training points carrying that label: it was not fitted from that cluster's particles (K={ms.K})", **keys)
                        break
                if len(uniq) > 1:
                    w.probe("modes.fit_checked_K_ge_2")
        elif how == "from_global":
            lo, hi = u.min(axis=0), u.max(axis=0)
            tol = 1e-9 * (1.0 + np.abs(hi - lo))
            if np.any(ms.means[0] < lo - tol) or np.any(ms.means[0] > hi + tol):
                w.violation(self.prop, "mode.not_from_own_cluster", "global mode location outside the bounding box of the training pool", **keys)

    def on_mcmc_args(self, inc, kw):
        w = inc.world
        s = _sampler(inc)
        cfg = s._core.config
        keys = dict(cluster_every=cfg.cluster_every, clustering=bool(cfg.clustering))
        ms = kw["mode_stats"]
        a = np.asarray(kw["assignments"])
        self.stages += 1
        K = ms.K
        if K >= 2:
            self.k_ge2 += 1
            w.probe("modes.K_ge_2")
        if a.size and (a.min() < 0 or a.max() >= K):
            w.violation(self.prop, "label.out_of_range", f"assignment labels in [{a.min()},{a.max()}] but only K={K} proposal modes", **keys)
        if not (np.all(np.isfinite(ms.means)) and np.all(np.isfinite(ms.covariances))):
            w.violation(self.prop, "mode.nonfinite", "non-finite mode mean/scale reaches the kernel", **keys)
        else:
            for k in range(K):
                c = ms.covariances[k]
                if not np.allclose(c, c.T, rtol=1e-10, atol=1e-300):
                    w.violation(self.prop, "mode.asymmetric", f"scale matrix of mode {k} is not symmetric", **keys)
                    break
                try:
                    np.linalg.cholesky(c)
                    ev = np.linalg.eigvalsh(c)
                    if ev.min() <= 0:
                        raise np.linalg.LinAlgError("non-positive eigenvalue")
                except np.linalg.LinAlgError as e:
                    w.violation(self.prop, "mode.not_spd", f"scale matrix of mode {k} is not positive definite ({e})", **keys)
                    break
        dof = np.asarray(ms.degrees_of_freedom, dtype=float)
        if not (np.all(np.isfinite(dof)) and np.all(dof > 0)):
            w.violation(self.prop, "mode.dof", f"degrees of freedom {dof!r} reach the kernel", **keys)
        st = self.stage
        if st is None or st["ms"] is not ms:
            w.violation(self.prop, "mode.stale", "mode statistics given to the kernel are not the ones the training stage of this iteration returned", **keys)
            return
        self.stage = None
        if not st["fits"]:
            w.violation(self.prop, "mode.not_fitted", "the kernel runs with mode statistics that no fit of this iteration's training stage produced (placeholder or left-over statistics)", **keys)
            return
        pf = [f for f in st["fits"] if f["labels"] is not None]
        if not pf:
            # no clustering in this stage: one global mode (labels are all 0, checked through the range above) fitted from the pool
            gu = st["fits"][-1]["u"]
            lo, hi = gu.min(axis=0), gu.max(axis=0)
            tol = 1e-9 * (1.0 + np.abs(hi - lo))
            if np.any(ms.means[0] < lo - tol) or np.any(ms.means[0] > hi + tol):
                w.violation(self.prop, "label.served_by_other_mode", f"the single mode given to the kernel has its location {np.round(ms.means[0], 4).tolist()} outside the bounding box of the training pool", **keys)
            return
        lf = pf[-1]
        labels_t, u_t = lf["labels"], lf["u"]
        # (a) the same model must label the training pool and the active particles: an active particle that is one of the training points
        #     (resampling copies pool rows) carries the label that point had when the modes were fitted
        tl = {}
        for row, lab in zip(u_t, labels_t):
            tl.setdefault(row.tobytes(), int(lab))
        au = np.asarray(kw["u"])
        n_match = n_bad = 0
        for row, lab in zip(au, a):
            t = tl.get(np.ascontiguousarray(row).tobytes())
            if t is not None:
                n_match += 1
                n_bad += int(t != int(lab))
        if n_match:
            w.probe("modes.active_particles_matched_to_training_points", n_match)
        if n_bad:
            w.violation(self.prop, "label.other_clustering", f"{n_bad} of {n_match} active particles that are training points carry a different label than the one they had when the mode statistics were fitted "
                        f"(labels come from a different model / normalisation than the statistics)", **keys)
        # (b) the mode a label selects was fitted from the training points carrying that label: any location estimate computed from a cluster's points
        #     lies inside their bounding box (exact necessary condition, independent of how the implementation numbers its modes).  A label without any
        #     training point can only be served by a fallback (e.g. the global fit), whose location lies inside the bounding box of the whole pool.
        glo, ghi = u_t.min(axis=0), u_t.max(axis=0)
        for lab in sorted(set(int(x) for x in np.unique(a))):
            if lab < 0 or lab >= K:
                continue  # reported as label.out_of_range above
            pts = u_t[labels_t == lab]
            if len(pts):
                lo, hi = pts.min(axis=0), pts.max(axis=0)
                what = f"the {len(pts)} training points carrying that label"
            else:
                lo, hi = glo, ghi
                what = "the training pool (no training point carries that label: only a fallback fitted from the pool can serve it)"
                w.probe("modes.active_label_without_training_point")
            tol = 1e-9 * (1.0 + np.abs(hi - lo))
            if np.any(ms.means[lab] < lo - tol) or np.any(ms.means[lab] > hi + tol):
                w.violation(self.prop, "label.served_by_other_mode", f"active particles carry label {lab}; the mode selected by that label has its location {np.round(ms.means[lab], 4).tolist()} outside the bounding box "
                            f"[{np.round(lo, 4).tolist()}, {np.round(hi, 4).tolist()}] of {what} (labels in the training set {np.unique(labels_t).tolist()}, K={K})", **keys)
                break


# ------------------------------------------------------------------------------------ C11
class ZeroLikeMon(Monitor):
    def __init__(self, prop="C11"):
        self.prop = prop
        self.fhat = []
        self.restored = []
        self.warm = 0
        self.batch_seen = 0

    def on_phase(self, inc, phase):
        self.batch_seen = 0
        if phase == "rerun":
            self.fhat, self.restored = [], []

    def after_load(self, inc, core, path, err):
        # beta=0 batches restored from a checkpoint were judged before the crash; their recorded
        # logZ are legitimate estimates of log f and widen the band for the resumed warm-up
        if err is None:
            h = core.state._history
            self.restored = [float(z) for z, b in zip(h["logz"], h["beta"]) if float(b) == 0.0 and math.isfinite(float(z))]
            self.fhat = []

    def after_commit(self, inc):
        w = inc.world
        st = _sampler(inc).state
        h = st._history
        beta = float(h["beta"][-1])
        t = len(h["logl"]) - 1
        if np.any(~np.isfinite(h["logl"][t])):
            n_bad = int(np.sum(~np.isfinite(h["logl"][t])))
            all_inf = n_bad == len(h["logl"][t])
            w.violation(self.prop, "stored.minus_inf", f"batch {t} stores {n_bad} particle(s) with -inf log-likelihood" + (" (every prior draw of this iteration fell in the zero-likelihood region)" if all_inf else ""), all_draws_infinite=all_inf)
        else:
            # the stored value may have been rewritten on the way (e.g. -inf -> the most negative float): judge the stored *points* with the user's model itself
            xs = np.asarray(h["x"][t])
            bad = [i for i in range(len(xs)) if w.target.logl_pure(xs[i]) == -math.inf]
            if bad:
                w.violation(self.prop, "stored.minus_inf", f"batch {t} stores {len(bad)} particle(s) at points where the likelihood is zero (stored logl there: {float(np.asarray(h['logl'][t])[bad[0]])!r})", all_draws_infinite=len(bad) == len(xs))
        if beta != 0.0:
            self.batch_seen = len(inc.batch_log)
            return
        if not inc.batch_log:
            return
        # pool the likelihood batches of this iteration (a prior batch may be redrawn)
        part = inc.batch_log[self.batch_seen:]
        self.batch_seen = len(inc.batch_log)
        n, ninf = sum(a for a, _ in part), sum(b for _, b in part)
        if not n:
            return
        if len(part) > 1:
            w.probe("prior_batch_redrawn")
        f = (n - ninf) / n
        self.fhat.append(f)
        self.warm += 1
        if ninf:
            w.probe("minus_inf_replacement")
        if len([x for x in self.fhat if x < 1]) >= 2:
            w.probe("two_warmup_iterations_with_minus_inf")
        lz = float(h["logz"][-1])
        band = [math.log(x) for x in self.fhat if x > 0] + list(self.restored)
        if not band:
            return
        lo, hi = min(band), max(band)
        if not (lo - 1e-9 <= lz <= hi + 1e-9):
            pos = [x for x in self.fhat if x > 0]
            w.violation(self.prop, "warmup.logz_band", f"beta=0 iteration {self.warm}: recorded logZ={lz:.6f} outside [log min f_t, log max f_t]=[{lo:.6f},{hi:.6f}] (finite fractions per warm-up batch {['%.3f' % x for x in self.fhat]}; sum of logs={sum(math.log(x) for x in pos):.6f})", n_warm=min(self.warm, 3))


# ------------------------------------------------------------------------------------ C13 (calls)
class CallsMon(Monitor):
    def __init__(self, prop="C13"):
        self.prop = prop
        self.base = None
        self.base_calls = 0
        self.checked = 0

    def after_load(self, inc, core, path, err):
        if err is None:
            self.base = inc.world.target.n_points
            self.base_calls = int(core.state._current.get("calls") or 0)

    def after_reweight(self, inc, weights):
        if self.base is None:
            self.base = inc.world.target.n_points
            self.base_calls = int(_sampler(inc).state._current.get("calls") or 0)

    def on_phase(self, inc, phase):
        self.base = None

    def after_commit(self, inc):
        st = _sampler(inc).state
        if self.base is None:
            return
        made = inc.world.target.n_points - self.base
        calls = int(st._history["calls"][-1])
        self.checked += 1
        if calls != self.base_calls + made:
            inc.world.violation(self.prop, "calls.count", f"reported calls={calls} but the likelihood was evaluated at {self.base_calls}+{made} points (iteration {len(st._history['calls'])})")
