"""tsim - deterministic simulation with fault injection for minaskar/tempest.

Importing this package
  * puts the tree under test (TEMPEST_SRC, default /repo) first on sys.path,
  * installs the RNG seam on numpy.random *before* tempest is imported,
  * disables tqdm's monitor thread (the only real thread the library starts).
Nothing here draws random numbers or reads a clock.
"""
import os
import sys

TEMPEST_SRC = os.environ.get("TEMPEST_SRC", "/repo")
VERIF_ROOT = os.path.dirname(os.path.dirname(os.path.abspath(__file__)))

if TEMPEST_SRC not in sys.path:
    sys.path.insert(0, TEMPEST_SRC)

import warnings  # noqa: E402

warnings.filterwarnings("ignore")

import numpy as _np  # noqa: E402

_np.seterr(all="ignore")

import tqdm as _tqdm  # noqa: E402

_tqdm.tqdm.monitor_interval = 0

from . import seams  # noqa: E402

seams.install()

import tempest  # noqa: E402,F401

_src = os.path.realpath(os.path.dirname(tempest.__file__))
if not _src.startswith(os.path.realpath(TEMPEST_SRC)):
    raise RuntimeError(f"tempest imported from {_src}, expected under {TEMPEST_SRC}")
