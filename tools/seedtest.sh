#!/bin/sh
# tools/seedtest.sh <worktree-with-patch-applied> <check id>...   : run checks against a scratch tree (never /repo)
WT="$1"; shift
export TEMPEST_SRC="$WT" TSIM_NO_EVIDENCE=1 TSIM_REPLAY_DIR=/tmp/seedreplays/$(basename "$WT")
mkdir -p "$TSIM_REPLAY_DIR"
for c in "$@"; do
  /verif/check "$c" > "$TSIM_REPLAY_DIR/$c.log" 2>&1
  echo "$(basename $WT) $c exit=$? :: $(grep -c '^VIOLATION' $TSIM_REPLAY_DIR/$c.log) violation line(s); $(grep -m1 -A1 '^VIOLATION' $TSIM_REPLAY_DIR/$c.log | tail -1 | cut -c1-260)"
done
