#!/bin/sh
# tools/confirm_seed.sh <worktree>  : confirm a seeded change independently (suite passes, demo fails with / passes without)
WT="$1"; N=$(basename $WT)
cd $WT || exit 2
git diff -- tempest > /tmp/cs_$N.diff
if ! diff -q /tmp/cs_$N.diff _seed/patch.diff >/dev/null; then echo "$N: WARNING worktree diff != _seed/patch.diff"; fi
T=$(PYTHONPATH=$WT timeout 900 /venv/bin/python -m pytest -q -p no:cacheprovider --timeout=900 tests 2>&1 | grep -E "passed|failed" | tail -1)
PYTHONPATH=$WT timeout 300 /venv/bin/python _seed/demo.py > /tmp/cs_$N.with.log 2>&1; W=$?
git apply -R /tmp/cs_$N.diff
PYTHONPATH=$WT timeout 300 /venv/bin/python _seed/demo.py > /tmp/cs_$N.without.log 2>&1; WO=$?
git apply /tmp/cs_$N.diff
echo "$N: tests[$T] demo_with_patch_exit=$W demo_without_patch_exit=$WO"
