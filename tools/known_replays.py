"""Write one minimised replay per open known finding into /verif/known_replays/<Fxx>.json (documentation; run by hand)."""
import importlib, json, os, sys
sys.path.insert(0, "/verif")
import tsim
from tsim import harness

known = [e for e in harness.load_known() if e["status"] == "open"]
os.makedirs("/verif/known_replays", exist_ok=True)
for prop in sorted({e["property"] for e in known}):
    mod = importlib.import_module(f"tsim.props.{prop.lower()}")
    cases = list(mod.cases(0, "quick" if prop != "C01" else "thorough"))
    if prop == "C01":
        wanted = {json.dumps(e["where"].get("target")) for e in known if e["property"] == "C01"}
        cases = [c for c in cases if c.get("kind") == "run" and (c["cell"]["target"] in ("halfgauss_reflective", "vonmises_periodic", "expedge", "halfgauss_hard")) and c["cell"]["kernel"] == "tpcn" and not c["cell"].get("arm")]
    res = harness.run_cases(mod, cases)
    viol = [(c, v) for r, c in zip(res, cases) for v in r["violations"]]
    if hasattr(mod, "aggregate"):
        extra, _ = mod.aggregate(res, cases)
        viol += [(v.get("repro_case"), v) for v in extra]
    for e in known:
        if e["property"] != prop:
            continue
        hit = next(((c, v) for c, v in viol if harness.match_known(v, [e]) is e), None)
        if hit is None:
            print(e["id"], "not reached in this run")
            continue
        c, v = hit
        c = v.get("repro_case") or c
        mc, mv, used = harness.minimise(mod, c, v, budget=24) if prop != "C01" else (c, v, 0)
        body = dict(finding=e["id"], property=prop, what=e["what"], case={k: x for k, x in mc.items() if k != "repro_case"}, expect=dict(oracle=mv["oracle"], keys=mv.get("keys", {}), detail=mv["detail"]),
                    replay_cmd=f"./check {prop.lower()} --replay known_replays/{e['id']}.json")
        json.dump(body, open(f"/verif/known_replays/{e['id']}.json", "w"), indent=1, sort_keys=True, default=str)
        print(e["id"], "->", mv["detail"][:120])
