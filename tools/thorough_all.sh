#!/bin/sh
for p in c14 c13 c17 c10 c12 c05 c04 c07 c11 c09 c08 c18 c03 c02 c01; do
  echo "=== $p $(date +%H:%M:%S)"
  ./check $p --tier thorough 2>&1 | grep -E "^VIOLATION|^KNOWN|^HARNESS|oracle=|^\[C|^timeout after|Error|^  File .*tsim" | cut -c1-600
done
echo "=== done $(date +%H:%M:%S)"
