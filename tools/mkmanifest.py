import json
checks = {
 "C04": ("exploration", "world engine + RefMIS refinement", "Refinement of compute_logw_and_logz against an independent extended-precision reference after every commit/load of seeded simulated executions, on histories the simulator reaches through faults (reconfigured resume -> unequal batches, re-run -> non-monotone beta, zero-likelihood regions, extreme scales). Sampling of reachable histories, not of arbitrary synthetic ones.", "RefMIS (tsim/refmis.py, long double) is the oracle; only reachable histories are explored", "3 C04"),
 "C05": ("exploration", "world engine + exact schedule monitor", "Exact per-iteration invariant at the reweight seam of seeded simulated executions (monotone, bounded, ESS floor after an advance, recorded beta/ESS/logZ/weights all at one temperature), including across crash->resume, reconfigured resume and re-run.", "RefMIS oracle; volume-variation ESS floor judged only when the reference ESS curve is monotone", "3 C05"),
 "C07": ("exploration", "world engine + exact record-coherence monitor under faults", "Every row of every particle set is recomputed exactly (x==T(u), logL==L(x), blob==B(x)) after every stage, MCMC step, commit, load and on returned values, in seeded executions with pool reordering, zero-likelihood regions, likelihood exceptions, worker death, crash->resume and re-run.", "observation points are step boundaries; targets are simulator-owned and deterministic", "3 C07"),
 "C08": ("fault_enumeration", "deterministic simulation: SimFS crash/IO-fault enumeration inside save windows + checkpoint reference model", "Every syscall of every save window of the enumerated executions is a crash point (process and machine crash, byte offsets inside raw writes), plus seeded crash/IO-error placement over many configurations; oracles: exact round trip vs snapshot, resume continuation, crash atomicity of final names, saves work in every configuration.", "crash model (process: user-space buffers lost; machine: only fsynced data + journal prefix); SimFS implements the calls tempest uses", "3 C08"),
 "C09": ("exploration", "rnglog/replay twins at the RNG seam", "Exact comparison of seeded twin executions observed at the interposed numpy.random seam: reproducibility under a given random_state whatever the ambient stream state, sensitivity to the seed, disjoint draw values across seeds, library operations never reset the stream, resume never replays pre-checkpoint innovations.", "all library randomness flows through the numpy.random legacy API (tripwires check escapes)", "3 C09"),
 "C10": ("exploration", "paired replay under the RNG seam", "Two executions with L and L+c share the random stream through the seam; schedule, particles, weights, ESS equal to rounding; logZ_t shifts by beta_t*c. Divergences are re-tested on nearby shifts so that rounding forks are not judged.", "rounding forks do not reproduce under nearby shifts", "3 C10"),
 "C11": ("exploration", "world engine + exact warm-up evidence band", "Per prior-sampling iteration the recorded logZ must lie within the band of per-batch finite fractions observed at the likelihood seam (exact), no -inf stored; across crash->resume.", "band oracle accepts any per-batch/pooled/averaged estimator of the supported fraction", "3 C11"),
 "C12": ("exploration", "world engine + postcondition and posterior-contract oracle", "Exact postconditions after every completed simulated run (incl. resumed and re-run) and all 2^4 posterior option combinations x trimming parameters with row-by-row identity against the instrumented model and RefMIS.", "RefMIS oracle", "3 C12"),
 "C13": ("exploration", "differential twins over evaluation strategies with scheduler-chosen pool completion orders", "Same seed under scalar / vectorised / SimPool (seeded chunking, completion order, worker count, dill round trip) / pool=int: bitwise equality of per-iteration state, draw log and evidence with the serial twin; calls == instrumented evaluation counter at every commit incl. across resume; worker death must surface.", "SimPool honours map's ordering contract; real multiprocess not exercised", "3 C13"),
 "C14": ("exploration", "world engine + exact monitor at the mutate seam", "Arguments received by the kernel joined with what the training stage fitted: labels in range, finite SPD modes, positive dof, statistics fitted this iteration, mode a fitted from points labelled a; over cadences, caps, normalisation, resume.", "rank-vs-label clause judged when reached (reach probes reported)", "3 C14"),
 "C17": ("exploration", "op-machine: seeded operation/scribble sequences vs reference store", "Seeded interleavings of every public StateManager/Sampler accessor with in-place overwrites of every array handed out; stored data compared bitwise with a reference store after each operation; minimised op list is the replay.", "copy=False values and import arguments are donated (never scribbled)", "3 C17"),
 "C18": ("exploration", "covering arrays run to completion under the simulator", "Invalid factors one at a time must be rejected before any callback; pairwise (quick) / 3-wise (thorough) covering array of valid options, each row run to completion on several seeds under the simulator (pool and checkpoint rows hermetic) with postconditions and liveness watchdogs.", "option values as documented; simulator-owned pool and file system", "3 C18"),
}
m = {
 "version": 1,
 "setup_cmd": "/venv/bin/python -c 'import jsonschema' 2>/dev/null || /venv/bin/pip install -q --no-index --find-links /opt/veriftools/wheels jsonschema || true",
 "hooks": {"guard": "TEMPEST_VERIF", "enable": "no source hooks: all seams are interposed from outside (numpy.random wrappers, /simfs mount, SimPool, class-level monitors installed by tsim)",
           "baseline_off_cmd": "cd /repo && /venv/bin/python -m pytest -ra -q -p no:cacheprovider --timeout=900 --continue-on-collection-errors", "source_commits": [], "add_only": True},
 "engines": [
  {"name": "world", "path": "tsim/world.py", "serves_properties": ["C04","C05","C07","C08","C11","C12","C13","C14","C18"], "kind_free_text": "whole sampler under RNG/FS/pool/callback seams with read-only monitors; seeded fault plans; incarnations model process lifetimes"},
  {"name": "rnglog", "path": "tsim/seams.py", "serves_properties": ["C09","C10","C02"], "kind_free_text": "interposed numpy.random legacy API with per-run stream and event log; twin comparison"},
  {"name": "op-machine", "path": "tsim/props/c17.py", "serves_properties": ["C17"], "kind_free_text": "seeded operation sequences with scribble against a reference store"},
 ],
 "checks": [],
 "notes": "Entry point: ./check <id> [--tier quick|thorough] [--replay file]; exit 0 held / 1 VIOLATION / 2 harness error. known_findings.json lists fixed and open findings.",
 "not_applicable": [
  {"property_id": "C06", "reason": "resampling routines are stateless functions of (n, w, u0); the quantifier is over inputs (all offsets, weight sums within sqrt(eps)) - no schedule, fault, crash point or history for a simulator to control"},
  {"property_id": "C15", "reason": "mixture/hierarchical clustering invariants are algebraic facts about a deterministic function of (X, w); nothing depends on order, time, I/O or restart"},
  {"property_id": "C16", "reason": "boundary maps are pure functions of a float vector; the hard cases are inputs (ulp neighbours, -0.0, huge magnitudes), not events"},
  {"property_id": "C19", "reason": "fit_mvstud is a deterministic function of its data; equivariance/recovery relate two calls on transformed inputs, not a history"},
  {"property_id": "C20", "reason": "effective_sample_size / trim_weights / volume_variation are pure functions of their arguments"},
  {"property_id": "C01", "reason": "check not built yet in this commit (ensemble engine in progress)"},
  {"property_id": "C02", "reason": "check not built yet in this commit (ensemble engine in progress)"},
  {"property_id": "C03", "reason": "check not built yet in this commit (stage-ensemble engine in progress)"}
 ]
}
for pid,(lvl,tech,text,note,ref) in sorted(checks.items()):
    m["checks"].append({"property_id": pid, "quick_cmd": f"./check {pid.lower()} --tier quick", "thorough_cmd": f"./check {pid.lower()} --tier thorough",
        "evidence_file": f"evidence/{pid}.json", "replay_cmd_template": f"./check {pid.lower()} --replay {{path}}", "engine": "op-machine" if pid=="C17" else "rnglog" if pid in ("C09","C10") else "world",
        "level_claimed": {"category": lvl, "text": text, "design_ref": "DESIGN.md section " + ref}, "level_note": note, "technique": "deterministic simulation with fault injection: " + tech})
json.dump(m, open('/verif/MANIFEST.json','w'), indent=1)
import jsonschema
jsonschema.validate(m, json.load(open('/root/.vp/MANIFEST.schema.json')))
print("manifest ok", len(m["checks"]))
