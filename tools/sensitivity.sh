#!/bin/sh
# tools/sensitivity.sh [id ...] : re-validate that the registered checks still catch every seeded change.
# For each /verif/seeded/<id>: scratch worktree of /repo HEAD under /tmp, apply patch.diff, run the checks named in
# meta.json caught_by (TEMPEST_SRC=<worktree>; no evidence written, replays under /tmp), expect exit 1 + VIOLATION, remove the worktree.
cd /verif
IDS="$@"; [ -z "$IDS" ] && IDS=$(ls seeded)
OK=0; BAD=0
for id in $IDS; do
  WT=/tmp/sens_$id
  git -C /repo worktree add -q --detach $WT HEAD 2>/dev/null || { echo "$id: cannot create worktree"; continue; }
  # stored patches were made against earlier HEADs: fall back to reduced context, then to fuzzy patch(1)
  if ! git -C $WT apply /verif/seeded/$id/patch.diff 2>/dev/null && ! git -C $WT apply -C1 /verif/seeded/$id/patch.diff 2>/dev/null && ! (cd $WT && patch -s -p1 -F3 < /verif/seeded/$id/patch.diff >/dev/null 2>&1); then
    echo "$id: patch does not apply to HEAD (skipped)"; git -C /repo worktree remove --force $WT; continue; fi
  CHECKS=$(/venv/bin/python -c "
import json,re
m=json.load(open('/verif/seeded/$id/meta.json'))
print(' '.join(dict.fromkeys(re.match(r'(C\d\d)',c).group(1).lower() for c in m['caught_by'])))")
  HIT=""
  for c in $CHECKS; do
    TEMPEST_SRC=$WT TSIM_NO_EVIDENCE=1 TSIM_REPLAY_DIR=/tmp/sens_replays/$id ./check $c --no-minimise > /tmp/sens_$id.$c.log 2>&1
    rc=$?
    if [ $rc -eq 1 ] && grep -q '^VIOLATION' /tmp/sens_$id.$c.log; then HIT="$HIT $c"; [ -n "$FIRST_ONLY" ] && break; fi
  done
  if [ -n "$HIT" ]; then echo "$id: caught by$HIT"; OK=$((OK+1)); else echo "$id: NOT CAUGHT by [$CHECKS]"; BAD=$((BAD+1)); fi
  git -C /repo worktree remove --force $WT
  rm -rf /tmp/sens_replays/$id
done
git -C /repo worktree prune
echo "sensitivity: $OK caught, $BAD not caught"
[ $BAD -eq 0 ]
